"""`./check selftest [PROPERTY ...] [--only NAME]`: mutation self-test of the checks.

Every mutant is a small source edit of the kind the property's `why_tests_cant` describes; it is applied to a scratch
copy of /repo's working tree (outside /repo and /verif, removed afterwards), the named property's quick check is run
with VERIF_REPO pointing at the copy and must exit 1 with a VIOLATION line.  Behaviour-preserving rewrites must leave
the check silent (exit 0).  Results: evidence/selftest.json (not an evidence file of a property).
"""
import json
import os
import shutil
import subprocess
import sys
import tempfile
import time

VERIF = os.path.dirname(os.path.dirname(os.path.abspath(__file__)))
REPO = os.environ.get("VERIF_REPO", "/repo")

A, M, H, U, HT, MT = ("pyvolutionary/abstract.py", "pyvolutionary/models.py", "pyvolutionary/helpers.py",
                      "pyvolutionary/utils.py", "pyvolutionary/hypertuner.py", "pyvolutionary/multitask.py")

# (name, [properties expected to report a violation], file, old, new)
MUTANTS = [
    # ---- C01 / C05 / C13 / C14: the correction funnel
    ("cont_clip_upper_dropped", ["C01", "C05", "C13", "C14"], M,
     "return min(max(float(np.clip(value, self.lower_bound, self.upper_bound)), self.lower_bound), self.upper_bound)",
     "return float(max(value, self.lower_bound))"),
    ("disc_no_clip", ["C01", "C05", "C13"], M, "return min(max(int(np.clip(value, lb, ub)), lb), ub)", "return int(value)"),
    ("cont_clip_in_the_precision_of_the_input", ["C01", "C02", "C13"], M,          # the pinned-tree defect fixed in 023a9ec
     "return min(max(float(np.clip(value, self.lower_bound, self.upper_bound)), self.lower_bound), self.upper_bound)",
     "return float(np.clip(value, self.lower_bound, self.upper_bound))"),
    ("cont_clip_converts_first", ["C13"], M,          # my own first repair: OverflowError for integers beyond the float range
     "return min(max(float(np.clip(value, self.lower_bound, self.upper_bound)), self.lower_bound), self.upper_bound)",
     "return float(np.clip(float(value), self.lower_bound, self.upper_bound))"),
    ("henry_gas_residual_dropped", ["C10"], "pyvolutionary/henry_gas_solubility/henry_gas_solubility_optimization.py",
     "self._generate_group_population(self._config.n_clusters, self.__n_elements)",
     "self._generate_group_population(self._config.n_clusters, self.__n_elements, False)"),
    ("cuckoo_slice_from_the_end", ["C10"], "pyvolutionary/cuckoo_search/cuckoo_search_optimization.py",
     "pop[:(self._config.population_size - self.__n_cut)]", "pop[:-self.__n_cut]"),
    ("disc_upper_off_by_one", ["C01", "C05", "C13", "C14"], M,
     "return 0, len(self.choices) - 1", "return 0, len(self.choices)"),
    ("init_agent_skips_correction_when_given", ["C01"], M,          # C05 holds: Task.solve corrects again
     "return self.correct_solution(solution if solution is not None else self.empty_solution())",
     "return solution if solution is not None else self.correct_solution(self.empty_solution())"),
    ("perm_correct_plain_argsort", ["C02", "C13", "C14"], M,
     'return np.argsort(np.argsort(value, kind="stable"), kind="stable").tolist()', "return np.argsort(value).tolist()"),
    ("nan_not_replaced", ["C05"], M,
     "        if value != value:\n            # NaN passes through np.clip unchanged: replace it by a fresh value of the domain\n            value = self.randomize()\n",
     ""),
    # ---- C02
    ("fcn_sign_not_flipped", ["C02", "C12"], A, "else -1 * cost", "else cost"),
    ("solve_evaluates_uncorrected", ["C05"], M,
     "        solution = self.correct_solution(x)\n        return self.objective_function(solution)",
     "        return self.objective_function(x)"),
    ("weights_ignored", ["C02"], A,
     "cost = np.dot(cost, self._task.objective_weights) if self._task.objective_weights is not None else cost",
     "cost = float(np.sum(cost)) if self._task.objective_weights is not None else cost"),
    ("population_sign_not_restored", ["C02", "C03", "C12"], M,
     '            # return the agent with the position multiplied by -1\n            return a.model_copy(update={"cost": -a.cost})\n\n        task_type = kwargs.get("task_type", TaskType.MIN)\n        agents',
     '            return a\n\n        task_type = kwargs.get("task_type", TaskType.MIN)\n        agents'),
    ("fitness_branches_swapped", ["C02"], H,
     "return (1 / (value + 1)) if value >= 0 else (1 + abs(value))",
     "return (1 + abs(value)) if value >= 0 else (1 / (value + 1))"),          # (>= -> > is an equivalent mutant)
    ("fitness_ignores_direction", ["C02"], H, "value = value if task_type == TaskType.MIN else -value", "value = value"),
    # ---- C03 / C16
    ("best_worst_unpacked_swapped", ["C03"], A,          # (swapping only the pre-loop unpacking is unobservable)
     "            (self._best_agent, ), (self._worst_agent, ) = special_agents(self._population, n_best=1, n_worst=1)\n\n            # stop",
     "            (self._worst_agent, ), (self._best_agent, ) = special_agents(self._population, n_best=1, n_worst=1)\n\n            # stop"),
    ("best_agents_tail", ["C03", "C16"], H,
     "return sort_by_cost(population, task_type=task_type)[:n_best]",
     "return sort_by_cost(population, task_type=task_type)[-n_best:]"),
    ("worst_agents_neg_slice", ["C16"], H,
     "return sort_by_cost(population, task_type=task_type)[len(population)-n_worst:]",
     "return sort_by_cost(population, task_type=task_type)[-n_worst:]"),
    ("sort_indexes_max_not_reversed", ["C16"], H,
     "    if task_type == TaskType.MAX:\n        result = result[::-1]\n", ""),
    ("sort_by_cost_in_place", ["C16", "C15"], H, "pop_new = population.copy()", "pop_new = population"),
    ("greedy_le", ["C16"], A,
     "return new_agent if new_agent.cost < agent_copy.cost else agent_copy",
     "return new_agent if new_agent.cost <= agent_copy.cost else agent_copy"),
    ("result_best_sign_not_restored", ["C03", "C02"], M,
     '        if best_solution is not None:\n            kwargs["best_solution"] = refine_best_solution(best_solution, task_type)',
     '        if best_solution is not None:\n            kwargs["best_solution"] = best_solution'),
    # ---- C04
    ("stop_ge_to_gt", ["C04"], A, "has_to_stop = cycle >= max_cycles", "has_to_stop = cycle > max_cycles"),
    ("fitness_error_le_to_lt", ["C04"], A,
     "has_to_stop |= current_error <= fitness_error", "has_to_stop |= current_error < fitness_error"),
    ("patience_window_one", ["C04"], A, "self._error_diffs[-patience:]])", "self._error_diffs[-1:]])"),
    ("window_and_to_or", ["C04"], A,
     "all([diff < 0 and abs(diff) < min_delta", "all([diff < 0 or abs(diff) < min_delta"),
    ("min_delta_lt_to_le", ["C04"], A, "abs(diff) < min_delta for diff", "abs(diff) <= min_delta for diff"),
    ("error_abs_dropped", ["C04"], A, "current_error = abs(1 - avg_fit)", "current_error = 1 - avg_fit"),
    # (first rate change measured against the first rate instead of 0: equivalent mutant - rates are >= 0, so the
    #  first change can never be a decrease either way)
    # ---- C06
    ("workers_le_to_lt", ["C06"], A, "if workers <= 0:", "if workers < 0:"),
    ("mode_check_removed", ["C06"], A,
     "            try:\n                self._mode = ModeSolver(mode)\n            except ValueError:\n                raise ValueError(\"Invalid mode. Possible values are \\\"serial\\\", \\\"thread\\\" and \\\"process\\\"\")",
     "            self._mode = ModeSolver(mode) if mode in ModeSolver else ModeSolver.SERIAL"),
    ("weights_validator_gt", ["C06"], M,
     "if not np.all(np.array(self.objective_weights) >= 0):", "if not np.all(np.array(self.objective_weights) > -1):"),
    ("cont_validator_lt", ["C13"], M,
     "        if self.upper_bound <= self.lower_bound:\n            raise ValueError(\"Upper bound must be greater than lower bound\")\n        return self\n\n    def get(self) -> \"ContinuousVariable\":",
     "        if self.upper_bound < self.lower_bound:\n            raise ValueError(\"Upper bound must be greater than lower bound\")\n        return self\n\n    def get(self) -> \"ContinuousVariable\":"),
    # ---- C07
    ("seeding_after_init", ["C07"], A,
     "        np.random.seed(task.seed)\n        evolution: list[Population] = []",
     "        evolution: list[Population] = []"),
    ("partner_uses_stdlib_random", ["C07"], H,
     "partner_index = np.random.randint(0, num_elements)",
     "partner_index = __import__('random').randint(0, num_elements - 1)"),
    ("seed_field_float", ["C07"], M, "    seed: int | None = None", "    seed: float | None = None"),
    # ---- C08
    ("cycle_counter_not_reset", ["C08"], A, "        self._current_cycle = 1\n        self._errors = []\n        self._error_diffs = []\n\n        if workers", "        self._errors = []\n        self._error_diffs = []\n\n        if workers"),
    ("errors_not_reset", ["C08"], A, "        self._current_cycle = 1\n        self._errors = []\n        self._error_diffs = []\n\n        if workers", "        self._current_cycle = 1\n        self._error_diffs = []\n\n        if workers"),
    ("fox_mint_in_ctor_only", ["C08"], "pyvolutionary/fox/fox_optimization.py",
     "    def before_initialization(self):\n        self.__mint = np.inf\n", ""),
    # ---- C09
    ("optimize_normalises_config", ["C09"], A,
     "        self._task = task\n\n        self.before_initialization()",
     "        self._task = task\n        self._config.max_cycles = max(2, int(self._config.max_cycles))\n\n        self.before_initialization()"),
    ("bee_halves_config", ["C09"], "pyvolutionary/bee_colony/bee_colony_optimization.py",
     "        self.__n_employed = int(self._config.population_size / 2)",
     "        self._config.population_size = int(self._config.population_size / 2)\n        self.__n_employed = self._config.population_size"),
    # ---- C10
    ("sort_and_trim_one_less", ["C10", "C16", "C17"], H,
     "return sort_by_cost(population)[:population_size]", "return sort_by_cost(population)[:population_size - 1]"),
    ("generate_agents_range_from_one", ["C10"], A,
     "return [self._init_agent() for _ in range(0, n_agents)]", "return [self._init_agent() for _ in range(1, n_agents)]"),
    ("group_residual_from_front", ["C10"], A,
     "groups.append([agent.model_copy() for agent in self._population[-residual:]])",
     "groups.append([agent.model_copy() for agent in self._population[:residual]])"),
    # ---- C11
    ("pool_results_skip_first", ["C11", "C10"], H,
     "    for i in parallel.as_completed(executors):\n        res.append(i.result())",
     "    for n, i in enumerate(parallel.as_completed(executors)):\n        if n or len(executors) < 3:\n            res.append(i.result())"),
    ("pooled_greedy_pairs_first", ["C11", "C16"], A,
     "                self._greedy_select_agent, agent, new_population[idx]\n            ) for idx, agent in enumerate(self._population)]\n            self._population = get_pool_results(executors)",
     "                self._greedy_select_agent, agent, new_population[0]\n            ) for idx, agent in enumerate(self._population)]\n            self._population = get_pool_results(executors)"),
    ("workers_draw_their_own_positions", ["C11"], A,
     "executor.submit(self._init_agent, self._task.empty_solution())", "executor.submit(self._init_agent)"),
    # ---- C12
    ("direction_handled_twice", ["C12", "C03"], A,
     "            (self._best_agent, ), (self._worst_agent, ) = special_agents(self._population, n_best=1, n_worst=1)\n\n            # stop",
     "            (self._best_agent, ), (self._worst_agent, ) = special_agents(\n                self._population, n_best=1, n_worst=1, task_type=task.minmax\n            )\n\n            # stop"),
    # ---- C13 / C14
    ("discrete_decode_off_by_one", ["C13"], M, "return self.choices[int(value)]", "return self.choices[int(value) - 1]"),
    # (a ContinuousMultiVariable validator that checks only the first pair is an equivalent mutant: the children
    #  ContinuousVariable constructors reject the other pairs)
    ("binary_accepts_zero", ["C13"], M, "        if v <= 0:\n            raise ValueError(f\"\\\"n_vars\\\"", "        if v < 0:\n            raise ValueError(f\"\\\"n_vars\\\""),
    ("space_dimension_counts_variables", ["C14"], M,
     'kwargs["space_dimension"] = sum([v.size() for v in variables])', 'kwargs["space_dimension"] = len(variables)'),
    ("transform_counter_not_advanced", ["C14"], M, "            counter += v.size()\n        return solution", "        return solution"),
    ("get_bounds_swapped", ["C14", "C06"], M, "return np.array(lb), np.array(ub)", "return np.array(ub), np.array(lb)"),
    # ---- C15
    # (history aliasing: see seeded/C15 - pydantic copies the list on validated construction, a one-line mutant cannot alias it)
    ("trend_idx_from_end", ["C15"], U,
     "return [sort_by_cost(result.evolution[i].agents, result.task_type)[idx].cost for i in iters]",
     "return [sort_by_cost(result.evolution[i].agents, result.task_type)[-idx - 1].cost for i in iters]"),
    ("trend_ignores_direction", ["C15"], U,
     "return [sort_by_cost(result.evolution[i].agents, result.task_type)[idx].cost for i in iters]",
     "return [sort_by_cost(result.evolution[i].agents)[idx].cost for i in iters]"),
    # ---- C17
    ("greedy_keeps_worse", ["C17", "C16"], A,
     "return new_agent if new_agent.cost < agent_copy.cost else agent_copy",
     "return new_agent if new_agent.cost > agent_copy.cost else agent_copy"),
    ("bee_keeps_worse", ["C17"], "pyvolutionary/bee_colony/bee_colony_optimization.py",
     "return new_agent if new_agent.cost < agent.cost else agent.model_copy",
     "return new_agent if new_agent.cost >= agent.cost else agent.model_copy"),
    # ---- C18
    ("pso_set_config_drops_key", ["C18"], "pyvolutionary/particle_swarm/particle_swarm_optimization.py",
     "self._config = ParticleSwarmOptimizationConfig(**parameters)",
     "self._config = ParticleSwarmOptimizationConfig(**{**parameters, 'c1': 1.0})"),
    ("ctor_reads_config", ["C18"], "pyvolutionary/grey_wolf/grey_wolf_optimization.py",
     "        super().__init__(config, debug)\n", "        super().__init__(config, debug)\n        self.__cycles = self._config.max_cycles\n"),
    # ---- C19
    ("grid_getitem_no_reverse", ["C19"], HT,
     "keys, values_lists = zip(*sorted(sub_grid.items())[::-1])", "keys, values_lists = zip(*sorted(sub_grid.items()))"),
    ("set_config_hoisted", ["C19"], HT,
     "        for id_params, params in enumerate(list_params_grid):\n            self._algorithm.set_config_parameters(params)\n",
     "        self._algorithm.set_config_parameters(list_params_grid[0])\n        for id_params, params in enumerate(list_params_grid):\n"),
    ("ascending_fixed_true", ["C19"], HT,
     "ascending = True if self._problem.minmax == TaskType.MIN else False", "ascending = True"),
    ("pair_rank_descending_again", ["C19"], HT, 'method="dense", ascending=True', 'method="dense", ascending=ascending'),
    ("best_score_wrong_column", ["C19"], HT,
     'self._best_score = self._best_row["trial_mean"].values[0]', 'self._best_score = self._best_row["trial_1"].values[0]'),
    # ---- C20
    ("get_mode_indices_swapped", ["C20"], MT,
     "mode = self._modes[id_optimizer][id_prob]", "mode = self._modes[id_prob % len(self._modes)][id_optimizer % len(self._modes[0])]"),
    ("trial_list_from_two", ["C20"], MT, "trial_list = list(range(1, n_trials + 1))", "trial_list = list(range(2, n_trials + 1)) or [1]"),
    ("check_modes_skipped", ["C20"], MT, "        self.__check_modes__()\n", ""),
    ("export_path_nested", ["C20"], MT,
     '            optimizer_path = f"{save_path}/{optimizer.name}"',
     '            save_path = optimizer_path = f"{save_path}/{optimizer.name}"'),
]

# behaviour-preserving rewrites: the named checks must stay silent
NEUTRAL = [
    ("sorted_instead_of_list_sort", ["C16", "C03"], H,
     "    pop_new = population.copy()\n    pop_new.sort(key=lambda agent: agent.cost, reverse=(task_type == TaskType.MAX))\n    return pop_new",
     "    return sorted(population, key=lambda agent: agent.cost, reverse=(task_type == TaskType.MAX))"),
    ("clip_as_min_max", ["C13", "C01"], M,
     "return min(max(float(np.clip(value, self.lower_bound, self.upper_bound)), self.lower_bound), self.upper_bound)",
     # (np.minimum(np.maximum(...)) is no longer neutral: unlike np.clip it raises OverflowError for integers beyond the
     #  float range, which C13 continuous_low_precision reports - so the neutral rewrite only reorders the second clip)
     "return max(min(float(np.clip(value, self.lower_bound, self.upper_bound)), self.upper_bound), self.lower_bound)"),
    ("stop_rule_reordered", ["C04"], A,
     "        has_to_stop = cycle >= max_cycles\n", "        has_to_stop = not (cycle < max_cycles)\n"),
    ("fitness_as_if_else", ["C02"], H,
     "    return (1 / (value + 1)) if value >= 0 else (1 + abs(value))",
     "    if value < 0:\n        return 1 + abs(value)\n    return 1 / (1 + value)"),
]


def run_one(name, props, path, old, new, expect_violation, out):
    scratch = tempfile.mkdtemp(prefix="verif_selftest_")
    try:
        shutil.copytree(os.path.join(REPO, "pyvolutionary"), os.path.join(scratch, "pyvolutionary"))
        shutil.copytree(os.path.join(REPO, "tests"), os.path.join(scratch, "tests"))
        fp = os.path.join(scratch, path)
        src = open(fp).read()
        if src.count(old) < 1:
            out.append({"mutant": name, "status": "NOT-APPLICABLE", "reason": "pattern not found in the current source"})
            print(f"  {name}: pattern not found (source changed) -> skipped")
            return
        open(fp, "w").write(src.replace(old, new, 1))
        for prop in props:
            t0 = time.time()
            env = dict(os.environ, VERIF_REPO=scratch, VERIF_EVIDENCE_DIR=os.path.join(scratch, "evidence"))
            p = subprocess.run([os.path.join(VERIF, "check"), prop, "quick"], cwd=VERIF, env=env, capture_output=True,
                               text=True)
            viol = [l for l in p.stdout.splitlines() if l.startswith("VIOLATION")]
            first = next((l.strip() for l in p.stdout.splitlines() if l.strip().startswith("refuted:")), "")
            ok = (p.returncode == 1 and bool(viol)) if expect_violation else (p.returncode == 0 and not viol)
            out.append({"mutant": name, "property": prop, "expected": "VIOLATION" if expect_violation else "silent",
                        "exit": p.returncode, "violations": len(viol), "first": first, "ok": ok,
                        "wall_s": round(time.time() - t0, 1)})
            print(f"  {name} / {prop}: exit={p.returncode} violations={len(viol)} {'OK' if ok else 'MISSED' if expect_violation else 'FALSE-ALARM'} {first[:110]}")
    finally:
        shutil.rmtree(scratch, ignore_errors=True)


def main(argv):
    only = None
    if "--only" in argv:
        only = argv[argv.index("--only") + 1]
        argv = [a for a in argv if a not in ("--only", only)]
    props = set(argv)
    out = []
    for expect, cat in ((True, MUTANTS), (False, NEUTRAL)):
        for name, ps, path, old, new in cat:
            if only and only != name:
                continue
            ps = [p for p in ps if not props or p in props]
            if ps:
                run_one(name, ps, path, old, new, expect, out)
    res = {"results": out, "caught": sum(1 for r in out if r.get("ok") and r.get("expected") == "VIOLATION"),
           "missed": [r for r in out if r.get("ok") is False and r.get("expected") == "VIOLATION"],
           "false_alarms": [r for r in out if r.get("ok") is False and r.get("expected") == "silent"]}
    dest = os.environ.get("VERIF_SELFTEST_OUT", os.path.join(VERIF, "evidence", "selftest.json"))
    json.dump(res, open(dest, "w"), indent=1)
    print(f"selftest: caught={res['caught']} missed={len(res['missed'])} false_alarms={len(res['false_alarms'])}")
    return 0 if not res["missed"] and not res["false_alarms"] else 1


if __name__ == "__main__":
    sys.exit(main(sys.argv[1:]))
