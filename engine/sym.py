"""Symbolic input creators with two modes.

explore: every creator makes a solver variable (or a solver-decided fork) in CrossHair's current StateSpace and
         records it under a deterministic key;
replay : every creator returns the concrete value recorded under the same key in a counterexample, so the very same
         obligation code runs as an ordinary Python program against the unpatched libraries.
"""
import math
import os

MODE = "explore"          # or "replay"

_registry = []            # [(key, value)] in creation order (explore)
_counters = {}
_replay_values = {}       # key -> concrete value (replay)
_forks = 0


class ReplayMismatch(BaseException):
    """The concrete re-execution asked for an input the counterexample does not contain (diverged)."""


class Inconclusive(BaseException):
    """Raised by stubs when the code under test reaches something the environment model does not cover."""


_shared = {}             # per-path cache of named values shared between several runs inside one obligation


def begin_path():
    global _forks
    _registry.clear()
    _counters.clear()
    _shared.clear()
    _forks = 0


def shared(name, maker):
    """the value called `name` on this path, created by maker() on first use (self-composition: two runs that use
    the same name see the same solver variable)"""
    if name not in _shared:
        _shared[name] = maker()
    return _shared[name]


def set_replay(values):
    global MODE
    MODE = "replay"
    _replay_values.clear()
    _replay_values.update(values)
    begin_path()


def registry():
    return list(_registry)


def _key(name):
    c = _counters.get(name, 0) + 1
    _counters[name] = c
    return name if c == 1 else f"{name}#{c}"


def _replayed(key):
    if key not in _replay_values:
        raise ReplayMismatch(key)
    return decode_value(_replay_values[key])


def encode_value(v):
    """JSON-safe encoding of realised values (inf / nan are not JSON)."""
    if isinstance(v, bool) or v is None or isinstance(v, (int, str)):
        return v
    if isinstance(v, float):
        if math.isnan(v):
            return "nan"
        if math.isinf(v):
            return "inf" if v > 0 else "-inf"
        return v
    if isinstance(v, (list, tuple)):
        return [encode_value(x) for x in v]
    if isinstance(v, dict):
        return {str(k): encode_value(x) for k, x in v.items()}
    try:
        import numpy as np
        if isinstance(v, np.generic):
            return encode_value(v.item())
        if isinstance(v, np.ndarray):
            return encode_value(v.tolist())
    except Exception:
        pass
    return repr(v)


def decode_value(v):
    if isinstance(v, str) and v in ("nan", "inf", "-inf"):
        return float(v)
    if isinstance(v, list):
        return [decode_value(x) for x in v]
    return v


# ------------------------------------------------------------------------------------------------ explore helpers
def _space():
    from crosshair.statespace import context_statespace
    return context_statespace()


def force_reals():
    """Finite floats are modelled as mathematical reals (DESIGN 2.3)."""
    if MODE != "explore":
        return
    from crosshair.tracers import NoTracing
    from crosshair.libimpl.builtinslib import RealBasedSymbolicFloat, ModelingDirector
    with NoTracing():
        _space().extra(ModelingDirector).global_representations[float] = RealBasedSymbolicFloat


def fork(name):
    """A solver-decided boolean that is concrete on each path."""
    key = _key(name)
    if MODE == "replay":
        return bool(_replayed(key))
    from crosshair.tracers import NoTracing
    with NoTracing():
        sp = _space()
        r = sp.smt_fork(desc=key + "_" + sp.uniq())
    _registry.append((key, r))
    return r


def real(name, lo=None, hi=None, lo_strict=False, hi_strict=False):
    key = _key(name)
    if MODE == "replay":
        return float(_replayed(key))
    from crosshair.tracers import NoTracing
    from crosshair.libimpl.builtinslib import RealBasedSymbolicFloat
    with NoTracing():
        sp = _space()
        v = RealBasedSymbolicFloat(key + "_" + sp.uniq(), float)
        if lo is not None:
            sp.add(v.var > lo if lo_strict else v.var >= lo)
        if hi is not None:
            sp.add(v.var < hi if hi_strict else v.var <= hi)
    _registry.append((key, v))
    return v


def ext_real(name):
    """finite real | +inf | -inf (kinds decided by the solver, inf is Python's own float)."""
    if fork(name + ".finite"):
        return real(name)
    return float("inf") if fork(name + ".posinf") else float("-inf")


def any_float(name):
    """finite | +inf | -inf | NaN"""
    if fork(name + ".nan"):
        return float("nan")
    return ext_real(name)


def integer(name, lo, hi):
    key = _key(name)
    if MODE == "replay":
        return int(_replayed(key))
    from crosshair.tracers import NoTracing
    from crosshair.libimpl.builtinslib import SymbolicInt
    with NoTracing():
        sp = _space()
        v = SymbolicInt(key + "_" + sp.uniq(), int)
        sp.add(v.var >= lo)
        sp.add(v.var <= hi)
    _registry.append((key, v))
    return v


def boolean(name):
    key = _key(name)
    if MODE == "replay":
        return bool(_replayed(key))
    from crosshair.tracers import NoTracing
    from crosshair.libimpl.builtinslib import SymbolicBool
    with NoTracing():
        sp = _space()
        v = SymbolicBool(key + "_" + sp.uniq(), bool)
    _registry.append((key, v))
    return v


def choice_index(name, n):
    """A concrete index in range(n), decided by solver forks."""
    key = _key(name)
    if MODE == "replay":
        return int(_replayed(key))
    from crosshair.tracers import NoTracing
    idx = n - 1
    with NoTracing():
        sp = _space()
        for i in range(n - 1):
            if sp.smt_fork(desc=f"{key}_is{i}_" + sp.uniq()):
                idx = i
                break
    _registry.append((key, idx))
    return idx


def choice(name, alphabet):
    return alphabet[choice_index(name, len(alphabet))]


def perm(name, k):
    """An arbitrary permutation of range(k); each element concrete on the path (decided by forks)."""
    key = _key(name)
    if MODE == "replay":
        return [int(x) for x in _replayed(key)]
    remaining = list(range(k))
    out = []
    from crosshair.tracers import NoTracing
    with NoTracing():
        sp = _space()
        while len(remaining) > 1:
            pick = len(remaining) - 1
            for i in range(len(remaining) - 1):
                if sp.smt_fork(desc=f"{key}_p{len(out)}_{i}_" + sp.uniq()):
                    pick = i
                    break
            out.append(remaining.pop(pick))
        out.extend(remaining)
    _registry.append((key, list(out)))
    return out


def string(name, maxlen):
    key = _key(name)
    if MODE == "replay":
        return str(_replayed(key))
    from crosshair.tracers import NoTracing
    from crosshair.libimpl.builtinslib import LazyIntSymbolicStr
    import z3
    with NoTracing():
        sp = _space()
        v = LazyIntSymbolicStr(key + "_" + sp.uniq())
    if len(v) > maxlen:
        assume(False)
    _registry.append((key, v))
    return v


def assume(cond):
    """Prune the path when cond is false (explore); in replay a false assumption is a divergence."""
    if MODE == "replay":
        if not cond:
            raise ReplayMismatch("assumption false in replay")
        return
    from crosshair.util import IgnoreAttempt
    if not cond:
        raise IgnoreAttempt("assume")


def constrain(z3_builder):
    """Add a solver constraint built from registry variables (explore only); z3_builder(space) -> z3 expr."""
    if MODE == "replay":
        return
    from crosshair.tracers import NoTracing
    with NoTracing():
        sp = _space()
        sp.add(z3_builder(sp))


def distinct(values):
    """Assume pairwise distinctness of symbolic reals / ints (solver constraint; replay: checked)."""
    if MODE == "replay":
        vs = list(values)
        if len(set(vs)) != len(vs):
            raise ReplayMismatch("distinct violated in replay")
        return
    import z3
    from crosshair.tracers import NoTracing
    with NoTracing():
        vs = [v.var for v in values if hasattr(v, "var")]
        if len(vs) > 1:
            _space().add(z3.Distinct(*vs))


def is_symbolic(v):
    if MODE == "replay":
        return False
    from crosshair.tracers import NoTracing
    from crosshair.core import CrossHairValue
    with NoTracing():
        return isinstance(v, CrossHairValue)
