"""pydantic-lite: replaces only pydantic's Rust validation core (BaseModel.__init__, model_dump) so that symbolic
field values survive construction.  The repository's own Python validators are still run, in pydantic's order
(field validators in field order, then `mode="after"` model validators), and their ValueError is wrapped in a
ValueError subclass like pydantic's ValidationError (which is a ValueError).

Validated differentially against the real pydantic on concrete instances (engine/differential.py).
"""
import types
import typing

from pydantic import BaseModel

REAL_INIT = BaseModel.__init__
REAL_DUMP = BaseModel.model_dump


class LiteValidationError(ValueError):
    """internal carrier: (loc, message, input); converted to the real pydantic ValidationError before it leaves"""
    def __init__(self, msg, loc=(), value=None):
        super().__init__(msg)
        self.loc, self.value = loc, value


def _real_validation_error(cls, e):
    """the exception user code sees is pydantic's own ValidationError (repository code may catch it by class and read
    e.errors()): field validators report loc=(field,), `mode="after"` model validators loc=() - as pydantic does"""
    from pydantic_core import ValidationError, InitErrorDetails
    try:
        return ValidationError.from_exception_data(cls.__name__, [InitErrorDetails(
            type="value_error", loc=tuple(e.loc), input="<input>", ctx={"error": ValueError(str(e))})])
    except Exception:
        return e


def _is_float_ann(ann):
    if ann is float:
        return True
    origin = typing.get_origin(ann)
    if origin in (typing.Union, types.UnionType):
        args = [a for a in typing.get_args(ann) if a is not type(None)]
        return len(args) == 1 and args[0] is float
    return False


def _is_intlike(v):
    from crosshair.tracers import NoTracing
    from crosshair.libimpl.builtinslib import SymbolicInt
    with NoTracing():
        if isinstance(v, bool):
            return False
        return isinstance(v, (int, SymbolicInt))


def _coerce(cls, data):
    """documented lax coercion for the primitive case that matters here: an int given for a `float` field."""
    out = dict(data)
    for name, f in cls.model_fields.items():
        if name in out and _is_float_ann(f.annotation) and _is_intlike(out[name]):
            out[name] = float(out[name])
    return out


def lite_init(self, **data):
    cls = type(self)
    m = cls.model_construct(**_coerce(cls, data))
    for a in ("__dict__", "__pydantic_fields_set__", "__pydantic_extra__", "__pydantic_private__"):
        object.__setattr__(self, a, getattr(m, a))
    try:
        _validate(self, cls)
    except LiteValidationError as e:
        raise _real_validation_error(cls, e) from None


def _validate(self, cls):
    missing = [n for n, f in cls.model_fields.items() if f.is_required() and n not in self.__dict__]
    if missing:
        raise LiteValidationError(f"missing fields {missing}", loc=(missing[0],))
    dec = cls.__pydantic_decorators__
    for name, f in cls.model_fields.items():          # conlist(min_length, max_length): annotated-types Len
        for md in f.metadata:
            lo, hi = getattr(md, "min_length", None), getattr(md, "max_length", None)
            if (lo is not None or hi is not None) and name in self.__dict__ and self.__dict__[name] is not None:
                n = len(self.__dict__[name])
                if (lo is not None and n < lo) or (hi is not None and n > hi):
                    raise LiteValidationError(f"{name}: length {n} outside [{lo}, {hi}]", loc=(name,))
    for name in cls.model_fields:
        for vname, d in dec.field_validators.items():
            if name in d.info.fields and name in self.__dict__:
                try:
                    self.__dict__[name] = getattr(cls, vname)(self.__dict__[name])
                except LiteValidationError:
                    raise
                except ValueError as e:
                    raise LiteValidationError(str(e), loc=(name,)) from None
    for vname, d in dec.model_validators.items():
        if d.info.mode == "after":
            try:
                getattr(self, vname)()
            except LiteValidationError:
                raise
            except ValueError as e:
                raise LiteValidationError(str(e), loc=()) from None


def lite_dump(self, **k):
    def cp(v):
        if isinstance(v, BaseModel):
            return {a: cp(b) for a, b in v.__dict__.items()}
        if type(v) is list:
            return [cp(x) for x in v]
        if type(v) is tuple:
            return tuple(cp(x) for x in v)
        if type(v) is dict:
            return {a: cp(b) for a, b in v.items()}
        return v
    return {a: cp(b) for a, b in self.__dict__.items()}


def install():
    BaseModel.__init__ = lite_init
    BaseModel.model_dump = lite_dump


def uninstall():
    BaseModel.__init__ = REAL_INIT
    BaseModel.model_dump = REAL_DUMP
