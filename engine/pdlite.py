"""pandas-lite: the part of pandas that HyperTuner.execute (and plausible rewrites of it) uses, in pure Python, so that
symbolic scores survive.  Differentially validated against the real pandas at every run (engine/differential.py).
`std` is replaced by the sample *variance* (only its rank is ever consumed; NaN for a single trial, like pandas)."""
import math

NAN = float("nan")


def _isnan(v):
    return isinstance(v, float) and v != v


class Series:
    def __init__(self, vals, index=None):
        self.vals = list(vals)
        self.index = list(index) if index is not None else list(range(len(self.vals)))

    @property
    def values(self):
        return self.vals

    def to_numpy(self, *a, **k):
        import numpy as np
        arr = np.empty(len(self.vals), dtype=object)
        for i, v in enumerate(self.vals):
            arr[i] = v
        return arr

    def tolist(self):
        return list(self.vals)

    def item(self):
        if len(self.vals) != 1:
            raise ValueError("can only convert an array of size 1 to a Python scalar")
        return self.vals[0]

    def __len__(self):
        return len(self.vals)

    def __iter__(self):
        return iter(self.vals)

    def __getitem__(self, i):
        return self.vals[self.index.index(i)] if not isinstance(i, slice) else Series(self.vals[i], self.index[i])

    def _bin(self, other, op):
        if isinstance(other, Series):
            return Series([op(a, b) for a, b in zip(self.vals, other.vals)], self.index)
        return Series([op(a, other) for a in self.vals], self.index)

    def __add__(self, o): return self._bin(o, lambda a, b: a + b)
    def __radd__(self, o): return self._bin(o, lambda a, b: b + a)
    def __sub__(self, o): return self._bin(o, lambda a, b: a - b)
    def __mul__(self, o): return self._bin(o, lambda a, b: a * b)
    def __rmul__(self, o): return self._bin(o, lambda a, b: b * a)
    def __truediv__(self, o): return self._bin(o, lambda a, b: a / b)
    def __neg__(self): return Series([-a for a in self.vals], self.index)
    def __eq__(self, o): return self._bin(o, lambda a, b: a == b)
    def __lt__(self, o): return self._bin(o, lambda a, b: a < b)
    def __le__(self, o): return self._bin(o, lambda a, b: a <= b)
    def __gt__(self, o): return self._bin(o, lambda a, b: a > b)
    def __ge__(self, o): return self._bin(o, lambda a, b: a >= b)

    def _valid(self):
        return [(i, v) for i, v in enumerate(self.vals) if not _isnan(v)]

    def min(self):
        vs = [v for _, v in self._valid()]
        if not vs:
            return NAN
        m = vs[0]
        for v in vs[1:]:
            if v < m:
                m = v
        return m

    def max(self):
        vs = [v for _, v in self._valid()]
        if not vs:
            return NAN
        m = vs[0]
        for v in vs[1:]:
            if v > m:
                m = v
        return m

    def idxmin(self):
        vs = self._valid()
        if not vs:
            raise ValueError("attempt to get argmin of an empty sequence")
        bi, bv = vs[0]
        for i, v in vs[1:]:
            if v < bv:
                bi, bv = i, v
        return self.index[bi]

    def idxmax(self):
        vs = self._valid()
        if not vs:
            raise ValueError("attempt to get argmax of an empty sequence")
        bi, bv = vs[0]
        for i, v in vs[1:]:
            if v > bv:
                bi, bv = i, v
        return self.index[bi]

    def mean(self):
        vs = [v for _, v in self._valid()]
        return sum(vs) / len(vs) if vs else NAN

    def rank(self, ascending=True, method="average"):
        out = []
        valid = [v for _, v in self._valid()]
        for v in self.vals:
            if _isnan(v):
                out.append(NAN)
                continue
            if ascending:
                less = sum(1 for w in valid if w < v)
            else:
                less = sum(1 for w in valid if w > v)
            eq = sum(1 for w in valid if w == v)
            if method == "average":
                out.append(less + (eq + 1) / 2)
            elif method == "min":
                out.append(float(less + 1))
            elif method == "dense":
                distinct = []
                for w in valid:
                    lt = (w < v) if ascending else (w > v)
                    if lt and not any(w == d for d in distinct):
                        distinct.append(w)
                out.append(float(len(distinct) + 1))
            else:
                raise NotImplementedError(method)
        return Series(out, self.index)

    def sort_values(self, ascending=True):
        order = sorted(range(len(self.vals)), key=lambda i: self.vals[i], reverse=not ascending)
        return Series([self.vals[i] for i in order], [self.index[i] for i in order])


class _ILoc:
    def __init__(self, df):
        self.df = df

    def __getitem__(self, k):
        if isinstance(k, list):
            return DataFrame(cols={c: [vs[i] for i in k] for c, vs in self.df.cols.items()},
                             index=[self.df.index[i] for i in k])
        if isinstance(k, slice):
            return DataFrame(cols={c: vs[k] for c, vs in self.df.cols.items()}, index=self.df.index[k])
        return Series([vs[k] for vs in self.df.cols.values()], list(self.df.cols.keys()))


class _Loc(_ILoc):
    def __getitem__(self, k):
        if isinstance(k, list):
            return _ILoc.__getitem__(self, [self.df.index.index(i) for i in k])
        return _ILoc.__getitem__(self, self.df.index.index(k))


class DataFrame:
    def __init__(self, rows=None, cols=None, index=None):
        if cols is not None:
            self.cols = cols
        elif isinstance(rows, dict):
            self.cols = {k: list(v) for k, v in rows.items()}
        else:
            keys = []
            for r in rows:
                for k in r:
                    if k not in keys:
                        keys.append(k)
            self.cols = {k: [r.get(k, NAN) for r in rows] for k in keys}
        n = len(next(iter(self.cols.values()))) if self.cols else 0
        self.index = list(index) if index is not None else list(range(n))

    @property
    def columns(self):
        return list(self.cols.keys())

    @property
    def iloc(self):
        return _ILoc(self)

    @property
    def loc(self):
        return _Loc(self)

    def __len__(self):
        return len(self.index)

    def __getitem__(self, k):
        if isinstance(k, list):
            return DataFrame(cols={c: self.cols[c] for c in k}, index=self.index)
        if isinstance(k, Series):
            keep = [i for i, m in enumerate(k.vals) if m]
            return DataFrame(cols={c: [vs[i] for i in keep] for c, vs in self.cols.items()},
                             index=[self.index[i] for i in keep])
        return Series(self.cols[k], self.index)

    def __setitem__(self, k, s):
        self.cols[k] = list(s.vals) if isinstance(s, Series) else list(s)

    def _rows(self):
        return [[self.cols[c][i] for c in self.cols] for i in range(len(self.index))]

    def mean(self, axis=1):
        return Series([sum(r) / len(r) for r in self._rows()], self.index)

    def std(self, axis=1):          # variance stands in for std (rank-equivalent); NaN for a single column, as pandas
        out = []
        for r in self._rows():
            if len(r) < 2:
                out.append(NAN)
                continue
            m = sum(r) / len(r)
            out.append(sum((x - m) * (x - m) for x in r) / (len(r) - 1))
        return Series(out, self.index)

    def apply(self, fn, axis=1):
        return Series([fn(r) for r in self._rows()], self.index)

    def sort_values(self, by, ascending=True):
        order = sorted(range(len(self.index)), key=lambda i: self.cols[by][i], reverse=not ascending)
        return DataFrame(cols={c: [vs[i] for i in order] for c, vs in self.cols.items()},
                         index=[self.index[i] for i in order])

    def filter(self, items=None, like=None, regex=None, axis=None):
        import re
        keep = [c for c in self.cols if (items is not None and c in items) or (like is not None and like in str(c)) or
                (regex is not None and re.search(regex, str(c)))]
        return DataFrame(cols={c: self.cols[c] for c in keep}, index=self.index)

    def head(self, n=5):
        return self.iloc[list(range(min(n, len(self.index))))]

    def to_dict(self):
        return {c: dict(zip(self.index, vs)) for c, vs in self.cols.items()}
