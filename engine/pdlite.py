"""pandas-lite: exactly the calls HyperTuner.execute makes."""
class Series:
    def __init__(self, vals): self.vals = list(vals)
    @property
    def values(self): return self.vals
    def tolist(self): return list(self.vals)
    def min(self):
        m = self.vals[0]
        for v in self.vals[1:]:
            if v < m: m = v
        return m
    def __eq__(self, other): return Series([v == other for v in self.vals])
    def rank(self, ascending=True, method="average"):
        out = []
        for v in self.vals:
            if ascending:
                less = sum(1 for w in self.vals if w < v)
            else:
                less = sum(1 for w in self.vals if w > v)
            eq = sum(1 for w in self.vals if w == v)
            if method == "average":
                out.append(less + (eq + 1) / 2)
            elif method == "dense":
                distinct = []
                for w in self.vals:
                    lt = (w < v) if ascending else (w > v)
                    if lt and not any(w == d for d in distinct): distinct.append(w)
                out.append(float(len(distinct) + 1))
            else: raise NotImplementedError(method)
        return Series(out)
class DataFrame:
    def __init__(self, rows=None, cols=None):
        if cols is not None: self.cols = cols; return
        keys = []
        for r in rows:
            for k in r:
                if k not in keys: keys.append(k)
        self.cols = {k: [r.get(k) for r in rows] for k in keys}
    def __getitem__(self, k):
        if isinstance(k, list): return DataFrame(cols={c: self.cols[c] for c in k})
        if isinstance(k, Series):
            return DataFrame(cols={c: [v for v, m in zip(vs, k.vals) if m] for c, vs in self.cols.items()})
        return Series(self.cols[k])
    def __setitem__(self, k, s): self.cols[k] = list(s.vals)
    def _rows(self):
        n = len(next(iter(self.cols.values())))
        return [[self.cols[c][i] for c in self.cols] for i in range(n)]
    def mean(self, axis=1): return Series([sum(r) / len(r) for r in self._rows()])
    def std(self, axis=1):   # variance stands in for std (rank-equivalent); n >= 2
        out = []
        for r in self._rows():
            m = sum(r) / len(r); out.append(sum((x - m) * (x - m) for x in r) / (len(r) - 1))
        return Series(out)
    def apply(self, fn, axis=1): return Series([fn(r) for r in self._rows()])
    def to_dict(self): return dict(self.cols)
