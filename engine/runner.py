"""CLI: `python -m engine.runner <PROPERTY> quick|thorough` and `python -m engine.runner --replay <file>`.

Runs every obligation of the property (one exhaustive symbolic exploration each) on all cores, replays
counterexamples against the unpatched libraries in a fresh interpreter, applies the known-findings file, writes
the evidence file and sets the exit code:  0 holds / known findings only, 1 replayed violation, 2 inconclusive,
3 harness error (stub differential failed, replay mismatch, internal error).
"""
import importlib
import json
import multiprocessing as mp
import os
import queue
import re
import subprocess
import sys
import time

VERIF = os.path.dirname(os.path.dirname(os.path.abspath(__file__)))
REPO = os.environ.get("VERIF_REPO", "/repo")
EVID = os.environ.get("VERIF_EVIDENCE_DIR", os.path.join(VERIF, "evidence"))          # selftest redirects this


class Ob:
    def __init__(self, id, fn, timeout=60.0, per_path_timeout=None, desc="", group=None, expect_refuted=False,
                 refutation_only=False, api_replay_decides=False, tolerate_errors=False):
        # generous floor: a timeout only matters when something is wrong, and a loaded machine must not turn a
        # passing obligation into INCONCLUSIVE (refutation-only obligations keep their short budget)
        timeout = timeout if refutation_only or expect_refuted else max(float(timeout), 300.0)
        self.id, self.fn, self.timeout, self.desc = id, fn, timeout, desc
        self.per_path_timeout = per_path_timeout if per_path_timeout is not None else max(10.0, timeout / 2)
        self.group = group or id.split("[")[0]
        self.expect_refuted = expect_refuted          # vacuity twin: must come back REFUTED
        self.refutation_only = refutation_only        # INCONCLUSIVE is acceptable (bug hunting only)
        self.tolerate_errors = tolerate_errors        # bug hunting over code the engine may not get through: an engine
        #                                               ERROR counts like INCONCLUSIVE (recorded, no verdict)
        self.api_replay_decides = api_replay_decides  # a candidate that the public-API replay does not confirm is
        #                                               recorded as unconfirmed, not as a harness error


def load_known():
    p = os.path.join(VERIF, "known_findings.json")
    if not os.path.exists(p):
        return []
    with open(p) as f:
        return json.load(f).get("findings", [])


def make_known_matcher(prop, ob_id, findings):
    mine = [k for k in findings if k["property"] == prop and re.fullmatch(k["obligation"], ob_id)]
    if not mine:
        return None

    def match(cex):
        for k in mine:
            if not re.fullmatch(k.get("aspect", ".*"), cex["aspect"]):
                continue
            if "detail" in k and not re.search(k["detail"], json.dumps(cex.get("detail"))):
                continue
            return k["id"]
        return None
    return match


def _worker(prop, tier, taskq, resq):
    os.environ["VERIF_TIER"] = tier
    from . import driver, pydlite, stubs
    driver.start_code_monitor(os.path.join(os.path.realpath(REPO), "pyvolutionary"))
    pydlite.install()
    stubs.install_symbolic_format()
    mod = importlib.import_module(f"obligations.{prop}")
    obs = {o.id: o for o in mod.obligations(tier)}
    findings = load_known()
    while True:
        try:
            oid = taskq.get(timeout=0.5)
        except queue.Empty:
            return
        if oid is None:
            return
        o = obs[oid]
        resq.put(("start", oid, os.getpid(), time.time()))
        try:
            res = driver.explore(o.fn, timeout=o.timeout, per_path_timeout=o.per_path_timeout,
                                 known=make_known_matcher(prop, oid, findings))
            res["functions"] = driver.take_encoded()
        except BaseException as e:          # noqa
            import traceback
            res = {"verdict": "ERROR", "error": f"{type(e).__name__}: {e}\n{traceback.format_exc()[-1500:]}",
                   "paths": 0, "solver_queries": 0, "solver_time_s": 0.0, "wall_s": 0.0, "known": [], "samples": []}
        resq.put(("done", oid, os.getpid(), res))


def run_replay(prop, ob_id, cex, out_path):
    """Re-execute the obligation concretely with no stubs in a fresh interpreter; returns (reproduced, info)."""
    os.makedirs(os.path.dirname(out_path), exist_ok=True)
    with open(out_path, "w") as f:
        json.dump({"property": prop, "obligation": ob_id, **cex}, f, indent=1)
    env = dict(os.environ, PYTHONPATH=f"{REPO}:{VERIF}", VERIF_REPO=REPO)
    p = subprocess.run([sys.executable, "-m", "engine.runner", "--replay", out_path], cwd=VERIF, env=env,
                       capture_output=True, text=True, timeout=600)
    last = (p.stdout.strip().splitlines() or [""])[-1]
    try:
        info = json.loads(last)
    except Exception:
        info = {"reproduced": False, "error": (p.stdout + p.stderr)[-1500:]}
    return bool(info.get("reproduced")), info


def replay_main(path):
    """Concrete re-execution (real numpy / pydantic / pandas / pools)."""
    from . import sym, driver
    with open(path) as f:
        cex = json.load(f)
    prop, ob_id = cex["property"], cex["obligation"]
    os.environ.setdefault("VERIF_TIER", "thorough")
    sym.set_replay(cex["inputs"])
    mod = importlib.import_module(f"obligations.{prop}")
    obs = {o.id: o for tier in ("thorough", "quick") for o in mod.obligations(tier)}
    o = obs[ob_id]
    info = {"reproduced": False}
    try:
        ret = o.fn()
        if isinstance(ret, driver.Failure):
            info = {"reproduced": True, "aspect": ret.aspect, "detail": sym.encode_value(ret.detail),
                    "same_aspect": ret.aspect == cex["aspect"]}
        elif ret is False:
            info = {"reproduced": True, "aspect": "assertion"}
        else:
            info = {"reproduced": False, "note": "obligation passed on the real code with the recorded inputs"}
    except sym.ReplayMismatch as e:
        info = {"reproduced": False, "note": f"replay diverged: {e}"}
    except Exception as e:
        asp = "exception:" + type(e).__name__
        # pydantic's ValidationError stands for the lite wrapper
        same = asp == cex["aspect"]
        if cex["aspect"].startswith("exception:"):
            info = {"reproduced": True, "aspect": asp, "message": str(e)[:300], "same_aspect": same}
        else:          # the symbolic run failed an assertion, the concrete run crashed elsewhere: not a reproduction
            import traceback
            info = {"reproduced": False, "error": f"replay raised {asp}: {str(e)[:300]}",
                    "where": traceback.format_exc()[-800:]}
    if info["reproduced"]:
        print(f"VIOLATION property={prop} replay={path}")
    print(json.dumps(info))          # last line: machine-readable outcome (read by the runner)
    return 1 if info["reproduced"] else 0


def main(argv):
    if argv and argv[0] == "--replay":
        return replay_main(argv[1])
    prop, tier = argv[0], (argv[1] if len(argv) > 1 else os.environ.get("VERIF_TIER", "quick"))
    seed = int(os.environ.get("VERIF_SEED", "0"))
    os.environ["VERIF_TIER"] = tier
    t0 = time.time()
    sys.path.insert(0, REPO)
    mod = importlib.import_module(f"obligations.{prop}")

    # 1. stub differentials (environment model vs the real libraries) -- a failing stub is a harness error
    from . import differential
    diff = differential.run(getattr(mod, "DIFFERENTIALS", ("numpy", "pydantic")), seed)
    if diff["failures"]:
        print("HARNESS-ERROR: environment stub disagrees with the real library:", diff["failures"][:3])
        return 3

    obs = mod.obligations(tier)
    if os.environ.get("VERIF_ONLY"):          # development aid (never used by a registered command): subset by regex
        obs = [o for o in obs if re.search(os.environ["VERIF_ONLY"], o.id)]
    ids = [o.id for o in obs]
    assert len(set(ids)) == len(ids), "duplicate obligation ids"
    byid = {o.id: o for o in obs}
    ctx = mp.get_context("fork")
    taskq, resq = ctx.Queue(), ctx.Queue()
    # longest first
    for o in sorted(obs, key=lambda o: -o.timeout):
        taskq.put(o.id)
    nproc = min(int(os.environ.get("VERIF_JOBS", os.cpu_count() or 4)), max(1, len(obs)))
    procs = {}

    def spawn():
        p = ctx.Process(target=_worker, args=(prop, tier, taskq, resq), daemon=True)
        p.start()
        procs[p.pid] = p
    for _ in range(nproc):
        spawn()
    results, running = {}, {}
    while len(results) < len(obs):
        try:
            msg = resq.get(timeout=1.0)
        except queue.Empty:
            msg = None
        now = time.time()
        if msg is not None:
            kind, oid, pid, payload = msg
            if kind == "start":
                running[pid] = (oid, payload)
            else:
                running.pop(pid, None)
                results[oid] = payload
        # hard timeouts / dead workers
        for pid, (oid, st) in list(running.items()):
            o = byid[oid]
            if now - st > o.timeout * 2 + 30:
                procs[pid].kill()
                running.pop(pid)
                results[oid] = {"verdict": "INCONCLUSIVE", "reason": "hard timeout", "paths": 0, "solver_queries": 0,
                                "solver_time_s": 0.0, "wall_s": now - st, "known": [], "samples": []}
                spawn()
        for pid, p in list(procs.items()):
            if not p.is_alive():
                procs.pop(pid)
                if pid in running:
                    oid, st = running.pop(pid)
                    results.setdefault(oid, {"verdict": "ERROR", "error": "worker died", "paths": 0,
                                             "solver_queries": 0, "solver_time_s": 0.0, "wall_s": now - st,
                                             "known": [], "samples": []})
        if not procs and len(results) < len(obs):
            if taskq.empty():
                break
            spawn()
    for p in procs.values():
        p.kill()

    # 2. classify, replay counterexamples
    violations, known_lines, inconclusive, errors, unconfirmed = [], [], [], [], []
    replay_dir = os.path.join(EVID, "replays", prop)
    functions = set()
    for o in obs:
        r = results.get(o.id) or {"verdict": "ERROR", "error": "no result", "known": [], "samples": []}
        results[o.id] = r
        functions.update(r.get("functions", []))
        safe = re.sub(r"[^A-Za-z0-9_.=,\-\[\]]", "_", o.id)
        for k in r.get("known", []):
            path = os.path.join(replay_dir, f"known_{safe}.json")
            ok, info = run_replay(prop, o.id, k, path)
            if ok:
                known_lines.append((k["finding"], o.id, path))
            else:
                errors.append((o.id, f"known finding {k['finding']} did not reproduce on the real code: {info}"))
        v = r["verdict"]
        if o.expect_refuted:
            if v != "REFUTED":
                errors.append((o.id, f"vacuity twin not refuted ({v})"))
            continue
        if v == "REFUTED":
            path = os.path.join(replay_dir, f"{safe}.json")
            ok, info = run_replay(prop, o.id, r["cex"], path)
            r["replay"] = info
            if ok:
                violations.append((o.id, path, r["cex"]["aspect"]))
            elif o.api_replay_decides and "error" not in info:
                unconfirmed.append({"obligation": o.id, "candidate": r["cex"]["detail"], "replay": info})
            else:
                errors.append((o.id, f"counterexample did not reproduce on the real code: {info}"))
        elif v == "INCONCLUSIVE":
            if not o.refutation_only:
                inconclusive.append((o.id, r.get("reason")))
        elif v == "ERROR":
            if not (o.tolerate_errors and o.refutation_only):
                errors.append((o.id, r.get("error")))

    # 3. evidence
    counted = [o for o in obs if not o.expect_refuted]
    holds = [o.id for o in counted if results[o.id]["verdict"] == "HOLDS"]
    paths = sum(results[o.id].get("paths", 0) for o in obs)
    samples = []
    for o in sorted(counted, key=lambda o: -results[o.id].get("paths", 0)):          # the richest explorations first
        r = results[o.id]
        if r.get("samples"):
            samples.append({"obligation": o.id, "desc": o.desc, "verdict": r["verdict"], "paths": r["paths"],
                            "one_path_inputs": r["samples"][0]})
        if len(samples) >= 6:
            break
    if not samples:
        samples = [{"obligation": o.id, "desc": o.desc, "verdict": results[o.id]["verdict"],
                    "paths": results[o.id].get("paths", 0)} for o in counted[:3]]
    groups = {}
    for o in obs:
        g = groups.setdefault(o.group, {"obligations": 0, "holds": 0, "paths": 0, "wall_s": 0.0})
        r = results[o.id]
        g["obligations"] += 1
        g["holds"] += r["verdict"] == "HOLDS"
        g["paths"] += r.get("paths", 0)
        g["wall_s"] = round(g["wall_s"] + r.get("wall_s", 0.0), 2)
    meta = getattr(mod, "META", {})
    ev = {
        "property_id": prop, "tier": tier, "seed": seed, "level": "other",
        "coverage": {
            "explanation": meta.get("explanation", "") + " Deciding step: bounded symbolic execution of the real "
            "functions with CrossHair's state space driven by engine/driver.py; a z3 query decides every branch; an "
            "obligation is discharged only if its path tree is exhausted with no unknown leaf.",
            "obligations": len(counted), "discharged": len(holds),
            "evaluations": paths,
            "distinct_nontrivial": sum(1 for o in counted if results[o.id].get("paths", 0) >= 2),
            "rule": "one obligation = one exhaustive symbolic exploration (sizes enumerated per obligation, values "
                    "symbolic); evaluations = feasible paths explored over all obligations; non-trivial = obligations "
                    "whose exploration had >= 2 feasible paths",
            "samples": samples,
            "exhaustive": len(holds) == len(counted),
            "solver": "z3 " + __import__("z3").get_version_string() + " via crosshair-tool 0.0.110",
            "solver_queries": sum(results[o.id].get("solver_queries", 0) for o in obs),
            "solver_time_s": round(sum(results[o.id].get("solver_time_s", 0.0) for o in obs), 2),
            "cpu_wall_sum_s": round(sum(results[o.id].get("wall_s", 0.0) for o in obs), 1),
            "functions_encoded": sorted(functions),
            "bounds": meta.get("bounds", {}).get(tier, meta.get("bounds", "")),
            "outside_claim": meta.get("outside", ""),
            "stubs": meta.get("stubs", []),
            "groups": groups,
            "vacuity_twins": {o.id: results[o.id]["verdict"] for o in obs if o.expect_refuted},
            "stub_differentials": diff["summary"],
            "not_discharged": [{"obligation": o.id, "verdict": results[o.id]["verdict"],
                                "reason": str(results[o.id].get("reason") or results[o.id].get("error") or
                                              results[o.id].get("cex", {}).get("aspect"))[:300]}
                               for o in counted if results[o.id]["verdict"] != "HOLDS"][:40],
            "known_findings": [{"finding": k, "obligation": oid} for k, oid, _ in known_lines],
            "candidates_not_confirmed_by_api_replay": unconfirmed,
            "assumptions_audit": meta.get("audit", lambda: None)() if callable(meta.get("audit")) else None,
        },
        "assumptions": meta.get("assumptions", []),
        "wall_s": round(time.time() - t0, 2),
        "violations": len(violations),
    }
    os.makedirs(EVID, exist_ok=True)
    with open(os.path.join(EVID, f"{prop}.json"), "w") as f:
        json.dump(ev, f, indent=1, default=str)

    print(f"[{prop} {tier}] obligations={len(counted)} discharged={len(holds)} paths={paths} "
          f"solver_queries={ev['coverage']['solver_queries']} wall={ev['wall_s']}s")
    seen = set()
    for kid, oid, path in known_lines:
        if kid in seen:
            continue
        seen.add(kid)
        desc = next((k.get("description", "") for k in load_known() if k["id"] == kid), "")
        print(f"KNOWN-FINDING: property={prop} {kid}: {desc} (obligation {oid}, replay {path})")
    for oid, path, aspect in violations:
        print(f"  refuted: {oid} aspect={aspect}")
        print(f"VIOLATION property={prop} replay={path}")
    for oid, why in inconclusive:
        print(f"INCONCLUSIVE: {oid}: {why}")
    for oid, why in errors:
        print(f"HARNESS-ERROR: {oid}: {str(why)[:1500]}")
    if violations:
        return 1
    if errors:
        return 3
    if inconclusive:
        return 2
    return 0


if __name__ == "__main__":
    sys.exit(main(sys.argv[1:]))
