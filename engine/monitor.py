"""Assumption monitor (DESIGN section 3): a small AST walk over the algorithm modules that lists the syntactic sites
contradicting a funnel hypothesis H1..H7.  It is NOT a decision procedure and has no effect on any exit code: it only
states, in the evidence, where the solver-backed claim about the shared mechanism stops applying to a concrete
algorithm module.
"""
import ast
import os
import pathlib

REPO = os.environ.get("VERIF_REPO", "/repo")
CORE = {"abstract.py", "models.py", "helpers.py", "utils.py", "hypertuner.py", "multitask.py", "enums.py", "__init__.py"}


def _modules():
    root = pathlib.Path(REPO, "pyvolutionary")
    for p in sorted(root.rglob("*.py")):
        if p.parent == root and p.name in CORE:
            continue
        if p.name in ("__init__.py", "models.py"):
            continue
        yield p


def _attr_chain(node):
    out = []
    while isinstance(node, ast.Attribute):
        out.append(node.attr)
        node = node.value
    if isinstance(node, ast.Name):
        out.append(node.id)
    return list(reversed(out))


def audit(hyps=("H1", "H2", "H4", "H5", "H7")):
    sites = {h: [] for h in hyps}
    n_modules = 0
    for p in _modules():
        n_modules += 1
        rel = str(p.relative_to(REPO))
        try:
            tree = ast.parse(p.read_text())
        except SyntaxError:
            continue
        for node in ast.walk(tree):
            loc = f"{rel}:{getattr(node, 'lineno', 0)}"
            if isinstance(node, (ast.Assign, ast.AugAssign, ast.AnnAssign)):
                targets = node.targets if isinstance(node, ast.Assign) else [node.target]
                for t in targets:
                    ch = _attr_chain(t) if isinstance(t, ast.Attribute) else []
                    if "H1" in sites and ch and ch[-1] in ("position", "cost", "fitness") and ch[0] != "self":
                        sites["H1"].append(f"{loc} store to .{ch[-1]}")
                    if "H2" in sites and len(ch) >= 3 and ch[0] == "self" and ch[1] in ("_config", "_task"):
                        sites["H2"].append(f"{loc} store to self.{ch[1]}.{ch[2]}")
            if isinstance(node, ast.Call):
                ch = _attr_chain(node.func) if isinstance(node.func, ast.Attribute) else (
                    [node.func.id] if isinstance(node.func, ast.Name) else [])
                if "H1" in sites and ch and ch[-1] in ("objective_function", "solve") and ch[0] == "self":
                    sites["H1"].append(f"{loc} direct call of {ch[-1]}")
                if "H1" in sites and ch == ["Agent"]:
                    sites["H1"].append(f"{loc} Agent(...) constructed directly")
                if "H4" in sites and ch[:1] == ["random"]:
                    sites["H4"].append(f"{loc} stdlib random.{ch[-1]}")
                if "H4" in sites and ch and ch[-1] in ("default_rng", "RandomState", "Generator"):
                    sites["H4"].append(f"{loc} private generator {ch[-1]}")
                if "H7" in sites and len(ch) >= 3 and ch[0] == "self" and ch[1] == "_population" and \
                        ch[2] in ("pop", "append", "remove", "clear", "insert"):
                    sites["H7"].append(f"{loc} self._population.{ch[2]}(...)")
            if isinstance(node, ast.Delete) and "H7" in sites:
                for t in node.targets:
                    if isinstance(t, ast.Subscript) and _attr_chain(t.value)[:2] == ["self", "_population"]:
                        sites["H7"].append(f"{loc} del self._population[...]")
            if isinstance(node, ast.Attribute) and isinstance(node.ctx, ast.Load) and "H5" in sites:
                if node.attr in ("fitness", "minmax"):
                    sites["H5"].append(f"{loc} read of .{node.attr}")
            if isinstance(node, (ast.Import, ast.ImportFrom)) and "H4" in sites:
                names = [a.name for a in node.names] + ([node.module] if isinstance(node, ast.ImportFrom) and node.module else [])
                if "random" in names:
                    sites["H4"].append(f"{loc} imports stdlib random")
    return {"modules_scanned": n_modules,
            "note": "syntactic sites that contradict a funnel hypothesis; informational only, no effect on the verdict",
            "sites": {h: {"count": len(v), "first": v[:12]} for h, v in sites.items()}}
