"""Environment model (DESIGN 2.4): pure-Python stand-ins for the C-level callees the shared core touches.

Every stub is keyed by the real callee object and installed as an extra layer of CrossHair's patching module, so it
applies however the repository spells the import.  Each stub falls through to the real function when no argument
is symbolic.  In replay mode nothing here is installed (except what an obligation asks for explicitly through
`env_overrides`, e.g. a recorded RNG stream).
"""
import builtins
import concurrent.futures as _cf
import random as _random

import numpy as _np

from . import sym


def _has_sym(*vals):
    from crosshair.tracers import NoTracing
    from crosshair.core import CrossHairValue
    with NoTracing():
        for v in vals:
            if isinstance(v, CrossHairValue):
                return True
            if type(v) in (list, tuple):
                for t in v:
                    if isinstance(t, CrossHairValue):
                        return True
                    if type(t) in (list, tuple):
                        for u in t:
                            if isinstance(u, CrossHairValue):
                                return True
        return False


_FALL = object()          # returned by a numpy stub to fall through to the real function


class NPList(list):
    """list with the few ndarray methods the shared core calls on results."""
    def tolist(self):
        return list(self)

    def __getitem__(self, i):
        r = list.__getitem__(self, i)
        return NPList(r) if isinstance(i, slice) else r


# ------------------------------------------------------------------------------------------------------ builtins
def s_int(val=0, *a):
    if not a:
        from crosshair.tracers import NoTracing
        from crosshair.libimpl.builtinslib import SymbolicFloat
        with NoTracing():
            isf = isinstance(val, SymbolicFloat)
        if isf:
            return val.__int__()
    return int(val, *a)


def s_format(obj, spec=""):
    from crosshair.tracers import NoTracing
    from crosshair.core import CrossHairValue
    from crosshair.libimpl.builtinslib import AnySymbolicStr
    with NoTracing():
        num = isinstance(obj, CrossHairValue) and not isinstance(obj, AnySymbolicStr)
    if num or (type(obj) in (list, tuple) and _has_sym(obj)) or \
            (type(obj) is dict and _has_sym(list(obj.values()))):
        return "<sym>"          # message text is never observed by a property; CrossHair's format would realise
    return format(obj, spec)


def s_print(*a, **k):
    return None


# --------------------------------------------------------------------------------------------------------- numpy
def s_clip(v, lo, hi, *a, **k):
    if not _has_sym(v, lo, hi):
        return _FALL
    return p_clip(v, lo, hi)


def p_clip(v, lo, hi):
    if v != v:          # NaN propagates (numpy: minimum(maximum(v, lo), hi))
        return v
    r = v if v >= lo else lo
    r = r if r <= hi else hi
    return r


def s_isclose(a, b, rtol=1e-05, atol=1e-08, equal_nan=False):
    """np.isclose on scalars with a symbolic operand: |a - b| <= atol + rtol * |b| (numpy's definition); a concrete
    infinity or NaN on either side keeps numpy's special cases"""
    if not _has_sym(a, b) or type(a) in (list, tuple, _np.ndarray) or type(b) in (list, tuple, _np.ndarray):
        return _FALL
    from crosshair.tracers import NoTracing
    with NoTracing():          # (under tracing type() of a symbolic float is float)
        special = any(type(x) is float and (x != x or x in (float("inf"), float("-inf"))) for x in (a, b))
    if special:
        return False          # the other operand is a (finite) symbolic real
    d = a - b
    d = d if d >= 0 else -d
    m = b if b >= 0 else -b
    return d <= atol + rtol * m


def s_isfinite(v, *a, **k):
    """symbolic reals are finite by construction (infinities and NaN are concrete floats on their own paths)"""
    if _is_sym_scalar(v):
        return True
    return _FALL


def s_isnan_isinf(v, *a, **k):
    if _is_sym_scalar(v):
        return False
    return _FALL


def _is_sym_scalar(v):
    return type(v) not in (list, tuple, _np.ndarray) and _has_sym(v)


def s_argsort(v, *a, **k):
    if not _has_sym(v):
        return _FALL
    return p_argsort(v)


def p_argsort(v):
    v = _seq(v)
    idx = list(range(len(v)))
    idx.sort(key=lambda i: v[i])          # stable; no oracle depends on the order of ties
    return NPList(idx)


def s_dot(a, b, *r, **k):
    if not _has_sym(a, b):
        return _FALL
    return p_dot(a, b)


def _seq(v):
    """1-d ndarray operands are sequences, 0-d ones scalars"""
    if isinstance(v, _np.ndarray):
        return NPList(v.tolist()) if v.ndim == 1 else (v.item() if v.ndim == 0 else v)
    return v


def p_dot(a, b):
    a, b = _seq(a), _seq(b)
    if type(a) in (list, tuple, NPList) and type(b) in (list, tuple, NPList):
        if len(a) != len(b):
            raise ValueError(f"shapes ({len(a)},) and ({len(b)},) not aligned")
        tot = 0.0
        for x, y in zip(a, b):
            tot = tot + x * y
        return tot
    if type(a) in (list, tuple, NPList):
        return NPList([x * b for x in a])
    if type(b) in (list, tuple, NPList):
        return NPList([a * y for y in b])
    return a * b


def s_average(a, *r, **k):
    if not _has_sym(a) or r or k:
        return _FALL
    return p_average(a)


def p_average(a):
    a = _seq(a)
    tot = 0.0
    for x in a:
        tot = tot + x
    return tot / len(a)


class _SArr(NPList):
    """result of np.array(list-with-symbolics): supports the element-wise comparisons the validators use."""
    def __ge__(self, other):
        return _SArr([x >= other for x in self])

    def __le__(self, other):
        return _SArr([x <= other for x in self])

    def __gt__(self, other):
        return _SArr([x > other for x in self])

    def __lt__(self, other):
        return _SArr([x < other for x in self])

    def __sub__(self, other):
        return _SArr([x - y for x, y in zip(self, other)])

    def __add__(self, other):
        return _SArr([x + y for x, y in zip(self, other)])


def s_array(obj, *r, **k):
    if not _has_sym(obj) or r or k:
        return _np.array(obj, *r, **k)
    return _SArr(obj)


def s_all(a, *r, **k):
    if type(a) is _SArr:
        for x in a:
            if not x:
                return False
        return True
    return _FALL


def s_any(a, *r, **k):
    if type(a) is _SArr:
        for x in a:
            if x:
                return True
        return False
    return _FALL


def s_less_equal(a, b, *r, **k):
    if type(a) is _SArr or type(b) is _SArr or _has_sym(a, b):
        if not hasattr(a, "__len__"):
            return _SArr([a <= y for y in b])
        if not hasattr(b, "__len__"):
            return _SArr([x <= b for x in a])
        return _SArr([x <= y for x, y in zip(a, b)])
    return _np.less_equal(a, b, *r, **k)


def _realize_int_list(obj):
    """numpy infers an integer dtype from a list of Python ints, but an object dtype from symbolic ints: at this C
    boundary all-integer lists are realised (the solver enumerates the values within their bounds), so that code which
    branches on the dtype behaves as it does on real integers"""
    from crosshair.tracers import NoTracing
    from crosshair.core import realize
    from crosshair.libimpl.builtinslib import SymbolicInt
    with NoTracing():
        ok = type(obj) in (list, tuple) and len(obj) > 0 and \
            all(isinstance(t, (int, SymbolicInt)) and not isinstance(t, bool) for t in obj) and \
            any(isinstance(t, SymbolicInt) for t in obj)
    if not ok:
        return obj
    return [realize(t) for t in obj]


def s_asarray(obj, *a, **k):
    return _np.asarray(_realize_int_list(obj), *a, **k)


def s_nparray(obj, *a, **k):
    return _np.array(_realize_int_list(obj), *a, **k)


# ----------------------------------------------------------------------------------------------------------- RNG
def _deny(name):
    def denied(*a, **k):
        raise sym.Inconclusive(f"random source {name} has no model in this obligation")
    denied.__name__ = "denied_" + name.replace(".", "_")
    return denied


_NP_RNG_METHODS = ["seed", "uniform", "random", "random_sample", "rand", "randn", "randint", "choice", "permutation",
                   "normal", "shuffle", "standard_normal", "exponential", "standard_cauchy", "gamma", "beta",
                   "binomial", "poisson", "triangular", "laplace", "logistic", "lognormal", "weibull", "bytes"]
_PY_RNG_METHODS = ["random", "randint", "uniform", "choice", "choices", "sample", "shuffle", "randrange", "gauss",
                   "normalvariate", "seed", "getrandbits", "betavariate", "expovariate", "triangular"]


def rng_deny_layer():
    layer = {}
    for m in _NP_RNG_METHODS:
        f = getattr(_np.random.RandomState, m, None)
        if f is not None:
            layer[f] = _deny("np.random." + m)
    layer["__cyfunc__"] = {id(getattr(_np.random, m)): _deny("np.random." + m) for m in ("seed", "sample", "ranf")}
    for m in _PY_RNG_METHODS:
        f = getattr(_random.Random, m, None)
        if f is not None:
            layer[f] = _deny("random." + m)
    return layer


class Stream:
    """A random stream whose elements are solver variables named (tag, index): two runs that use the same tag
    share their variables (same seed => same stream), different tags are independent."""
    def __init__(self, tag, distinct=False, max_draws=None):
        self.tag, self.pos, self.distinct, self.max_draws = tag, 0, distinct, max_draws

    def _bound(self):
        if self.max_draws is not None and self.pos >= self.max_draws:
            sym.assume(False)          # stated bound on the number of draws (unbounded retry loops)

    def unit(self):
        """next element as a real in [0, 1)"""
        self._bound()
        i = self.pos
        self.pos += 1

        def mk():
            u = sym.real(f"{self.tag}[{i}]", lo=0.0, hi=1.0, hi_strict=True)
            if self.distinct:
                others = [v for (t, j), v in Stream._reals if t == self.tag]
                if others:
                    sym.distinct(others + [u])
                Stream._reals.append(((self.tag, i), u))
            return u
        if i == 0 and self.distinct:
            Stream._reals = [e for e in Stream._reals if sym._shared.get(f"stream:{e[0][0]}[{e[0][1]}]") is e[1]]
        return sym.shared(f"stream:{self.tag}[{i}]", mk)

    def index(self, n):
        """next element as an int in range(n)"""
        self._bound()
        i = self.pos
        self.pos += 1
        return sym.shared(f"stream:{self.tag}[{i}]", lambda: sym.integer(f"{self.tag}[{i}]", 0, n - 1))

    _reals = []


def numpy_stream_layer(get_stream, on_seed=None, seed_contract=False):
    """Model of the numpy legacy global RNG backed by a Stream (get_stream() returns the current one)."""
    def seed(self, s=None):
        if on_seed is not None:
            on_seed(s)
        if s is not None and seed_contract:          # numpy's documented contract for the legacy seed
            from crosshair.tracers import NoTracing
            if _has_sym(s) or isinstance(s, int):
                if isinstance(s, float):
                    raise TypeError("Cannot cast scalar from dtype('float64') to dtype('int64')")
                if not 0 <= s <= 2 ** 32 - 1:
                    raise ValueError("Seed must be between 0 and 2**32 - 1")

    def uniform(self, low=0.0, high=1.0, size=None):
        if size is not None:
            raise sym.Inconclusive("np.random.uniform(size=...) not modelled")
        return low + (high - low) * get_stream().unit()

    def random(self, size=None):
        if size is not None:
            raise sym.Inconclusive("np.random.random(size=...) not modelled")
        return get_stream().unit()

    def rand(self, *shape):
        if shape:
            raise sym.Inconclusive("np.random.rand(shape) not modelled")
        return get_stream().unit()

    def choice(self, a, size=None, replace=True, p=None):
        items = list(range(a)) if isinstance(a, int) else list(a)
        if p is not None:          # support of the distribution: entries with a positive probability (p is concrete)
            support = [x for x, px in zip(items, list(p)) if px > 0]
            items = support if (replace or len(support) >= (size or 1)) else items
        if size is None:
            return items[int(get_stream().index(len(items)))]
        picks = []
        pool = list(items)
        for _ in range(int(size)):
            i = int(get_stream().index(len(pool)))
            picks.append(pool[i] if replace else pool.pop(i))
        return _np.array(picks)

    def randint(self, low, high=None, size=None, dtype=int):
        if size is not None:
            raise sym.Inconclusive("np.random.randint(size=...) not modelled")
        if high is None:
            low, high = 0, low
        return low + get_stream().index(high - low)

    def permutation(self, x):
        n = x if isinstance(x, int) else len(list(x))
        items = list(range(n)) if isinstance(x, int) else list(x)
        out = []
        while items:
            i = get_stream().index(len(items))
            out.append(items.pop(int(i)))
        return NPList(out)

    def mod_seed(s=None):
        seed(None, s)

    def shuffle(self, x):
        """in-place Fisher-Yates driven by the stream"""
        n = len(x)
        for i in range(n - 1, 0, -1):
            j = int(get_stream().index(i + 1))
            x[i], x[j] = x[j], x[i]

    R = _np.random.RandomState

    def unbound(fn):
        return lambda *a, **k: fn(None, *a, **k)
    # replay: the recorded draws are an environment input -> plain monkeypatch of the numpy.random module attributes
    replay = [(_np.random, "seed", mod_seed)] + [(_np.random, n, unbound(fn)) for n, fn in (
        ("uniform", uniform), ("random", random), ("random_sample", random), ("rand", rand), ("choice", choice),
        ("randint", randint), ("permutation", permutation), ("shuffle", shuffle))]
    return {"__cyfunc__": {id(_np.random.seed): mod_seed}, R.seed: seed, R.uniform: uniform, R.random: random,
            R.random_sample: random, R.rand: rand, R.choice: choice, R.randint: randint, R.permutation: permutation,
            R.shuffle: shuffle,
            "__replay__": replay}


def stdlib_stream_layer(get_stream):
    def randint(self, a, b):
        return a + get_stream().index(b - a + 1)

    def random(self):
        return get_stream().unit()

    def sample(self, population, k, **kw):
        pool, out = list(population), []
        for _ in range(k):
            out.append(pool.pop(int(get_stream().index(len(pool)))))
        return out

    def choice(self, seq):
        seq = list(seq)
        return seq[int(get_stream().index(len(seq)))]
    return {_random.Random.randint: randint, _random.Random.random: random, _random.Random.sample: sample,
            _random.Random.choice: choice,
            "__replay__": [(_random, "randint", lambda a, b: randint(None, a, b)), (_random, "random", lambda: random(None)),
                           (_random, "sample", lambda pop, k, **kw: sample(None, pop, k)),
                           (_random, "choice", lambda seq: choice(None, seq))]}


# --------------------------------------------------------------------------------------------------------- pools
class _Fut:
    def __init__(self, val=None, exc=None):
        self._val, self._exc = val, exc

    def result(self, timeout=None):
        if self._exc is not None:
            raise self._exc
        return self._val

    def done(self):
        return True

    def exception(self, timeout=None):
        return self._exc

    def cancelled(self):
        return False

    def cancel(self):
        return False          # already finished

    def running(self):
        return False

    def add_done_callback(self, fn):
        fn(self)


class _DoneSet(list):
    """result of wait(): iterable, len(), truthiness - like the sets concurrent.futures.wait returns"""
    def __sub__(self, other):
        return _DoneSet([x for x in self if x not in other])

    def __or__(self, other):
        return _DoneSet(list(self) + [x for x in other if x not in self])

    def update(self, other):
        for x in other:
            if x not in self:
                self.append(x)


class LitePool:
    """In-process pool: submit() runs the callable; completion order is chosen by as_completed (sym.perm)."""
    created = []          # (kind, workers) log, reset by obligations

    def __init__(self, kind, n=None, on_submit=None):
        self.kind, self.n, self.on_submit = kind, n, on_submit
        LitePool.created.append((kind, n))

    def __enter__(self):
        return self

    def __exit__(self, *a):
        return False

    def submit(self, fn, *a, **k):
        if self.on_submit is not None:
            return self.on_submit(self, fn, a, k)
        try:
            return _Fut(fn(*a, **k))
        except Exception as e:          # delivered at .result(), as a real pool does
            if self.kind == "process":          # ... after a pickle round trip: an exception class whose constructor
                import pickle                   # cannot be re-called with `args` breaks the pool
                try:
                    e = pickle.loads(pickle.dumps(e))
                except Exception:
                    from concurrent.futures.process import BrokenProcessPool
                    e = BrokenProcessPool("A process in the process pool was terminated abruptly while the future was "
                                          "running or pending.")
            return _Fut(exc=e)

    def map(self, fn, *iterables, **k):
        futs = [self.submit(fn, *args) for args in zip(*iterables)]
        return (f.result() for f in futs)


def pool_layer(on_submit=None, order_name="completion", order="any"):
    def mk_thread(max_workers=None, *a, **k):
        return LitePool("thread", max_workers, on_submit)

    def mk_process(max_workers=None, *a, **k):
        return LitePool("process", max_workers, on_submit)

    def as_completed(fs, timeout=None):
        fs = list(fs)
        if order == "submission":          # for obligations that only count: one representative completion order
            return fs
        perm = sym.perm(order_name, len(fs))
        return [fs[i] for i in perm]

    def wait(fs, timeout=None, return_when="ALL_COMPLETED"):
        """time is a solver variable: with a timeout, an arbitrary non-empty subset of the futures has finished when
        the call returns (progress assumption: at least one more finishes per call); without one, all have"""
        fs = list(fs)
        if timeout is None or len(fs) <= 1:
            return _DoneSet(fs), _DoneSet([])
        done = [f for f in fs[:-1] if sym.fork("finished-within-the-timeout")] + [fs[-1]]
        return _DoneSet(done), _DoneSet([f for f in fs if f not in done])
    # in replay mode the pool model stays in place (plain monkeypatch of concurrent.futures): completion order and
    # worker assignment are environment inputs recorded in the counterexample, and closures need no pickling
    return {_cf.ThreadPoolExecutor: mk_thread, _cf.ProcessPoolExecutor: mk_process, _cf.as_completed: as_completed,
            _cf.wait: wait,
            "__replay__": [(_cf, "ThreadPoolExecutor", mk_thread), (_cf, "ProcessPoolExecutor", mk_process),
                           (_cf, "as_completed", as_completed), (_cf, "wait", wait)]}


# ------------------------------------------------------------------------------------ arbitrary set iteration order
class ArbSet(set):
    """a set whose iteration order is chosen by the solver (string hashing is salted per process: PYTHONHASHSEED)"""
    def __iter__(self):
        items = sorted(set.__iter__(self), key=repr)
        if not hasattr(self, "_order"):
            self._order = sym.perm("set-iteration-order", len(items))
        return iter([items[i] for i in self._order])


def s_set(*a):
    return ArbSet(*a)


def arbitrary_set_order_layer():
    return {builtins.set: s_set}


# ----------------------------------------------------------------------------------------------------- installer
# numpy's public functions are `_ArrayFunctionDispatcher` instances: CrossHair normalises a call of such an object to
# `type(obj).__call__` with the instance as binding target, so the patch key is that slot wrapper and the stub
# dispatches on the instance.  Anything not in the table (and every call without symbolic arguments) reaches the
# real numpy, where object-dtype arrays hand comparisons / arithmetic back to the symbolic values (np.array, np.all,
# np.any, np.sum, ufuncs ... run for real).
_DISPATCH = {id(_np.clip): s_clip, id(_np.argsort): s_argsort, id(_np.dot): s_dot, id(_np.average): s_average,
             id(_np.isclose): s_isclose, id(_np.allclose): s_isclose,
             }
# ufuncs are instances of np.ufunc: same normalisation, key np.ufunc.__call__
_UFUNCS = {id(_np.isfinite): s_isfinite, id(_np.isnan): s_isnan_isinf, id(_np.isinf): s_isnan_isinf}
_UFUNC_CALL = _np.ufunc.__call__


def s_ufunc(self, *a, **k):
    stub = _UFUNCS.get(id(self))
    if stub is not None:
        r = stub(*a, **k)
        if r is not _FALL:
            return r
    return self(*a, **k)
_DISPATCHER_CALL = type(_np.clip).__call__
HITS = {}


def s_dispatcher(self, *a, **k):
    stub = _DISPATCH.get(id(self))
    if stub is not None:
        r = stub(*a, **k)
        if r is not _FALL:
            return r
    return self(*a, **k)          # a call from the stub's own code reaches the layer below (the real numpy)


# np.random.seed / sample / ranf are module-level *cython functions* (not bound methods of the global RandomState):
# CrossHair normalises a call to `type(fn).__call__` with the function as binding target, like the numpy dispatchers.
_CYFUNC_CALL = type(_np.random.seed).__call__
_CYFUNC_TABLE = []          # stack of {id(function): stub}


def s_cyfunc(self, *a, **k):
    for table in reversed(_CYFUNC_TABLE):
        stub = table.get(id(self))
        if stub is not None:
            return stub(*a, **k)
    return self(*a, **k)


BASE_LAYER = {
    builtins.int: s_int, builtins.format: s_format, builtins.print: s_print,
    _DISPATCHER_CALL: s_dispatcher, _UFUNC_CALL: s_ufunc, _CYFUNC_CALL: s_cyfunc, _np.asarray: s_asarray, _np.array: s_nparray,
}


def _seed_noop(self, seed=None):
    return None


def _mod_seed_noop(seed=None):
    return None


class env:
    """with env(extra_layer, ...): installs BASE_LAYER + deny-by-default RNG + the extra layers (explore mode).
    In replay mode only layers passed as `replay_layers` are applied, by plain monkeypatching of the callee's owner
    (these are environment inputs such as recorded random draws, never repository code)."""
    def __init__(self, *layers, rng_deny=True, allow_seed=False):
        self.layers = [dict(BASE_LAYER)]
        if rng_deny:
            self.layers.append(rng_deny_layer())
        if allow_seed:
            self.layers.append({_np.random.RandomState.seed: _seed_noop,
                                "__cyfunc__": {id(_np.random.seed): _mod_seed_noop}})
        self.layers.extend(layers)

    def __enter__(self):
        if sym.MODE != "explore":
            self._undo = []
            for layer in self.layers:
                for (owner, name, repl) in layer.get("__replay__", []):
                    self._undo.append((owner, name, getattr(owner, name)))
                    setattr(owner, name, repl)
            return self
        from crosshair.tracers import COMPOSITE_TRACER
        sym.force_reals()
        from crosshair.tracers import NoTracing
        self._installed = []
        with NoTracing():          # dict operations on the patch table are slow (and pointless) under tracing
            for layer in self.layers:
                layer = dict(layer)
                layer.pop("__replay__", None)
                cy = layer.pop("__cyfunc__", None)
                _CYFUNC_TABLE.append(cy or {})
                COMPOSITE_TRACER.patching_module.add(layer)
                self._installed.append(layer)
        return self

    def __exit__(self, *a):
        if sym.MODE != "explore":
            for owner, name, old in reversed(self._undo):
                setattr(owner, name, old)
            return False
        from crosshair.tracers import COMPOSITE_TRACER, NoTracing
        with NoTracing():
            for layer in reversed(self._installed):
                COMPOSITE_TRACER.patching_module.pop(layer)
                _CYFUNC_TABLE.pop()
        return False


def install_symbolic_format():
    """f-strings on symbolic numbers produce a placeholder instead of realising the value."""
    from crosshair.libimpl import builtinslib as _bl
    for cls in (_bl.SymbolicFloat, _bl.RealBasedSymbolicFloat, _bl.SymbolicInt, _bl.SymbolicBool):
        cls.__format__ = lambda self, spec: "<sym>"
        cls.__repr__ = lambda self: "<sym>"          # f"... {list_of_symbolics}" in validators' error messages
