"""Differential validation of the environment model against the real libraries, run at the start of every check.

The pure-Python definitions used on symbolic values (engine/stubs.py, engine/pydlite.py, engine/pdlite.py) are
executed on concrete inputs next to the real numpy / pydantic / pandas and must agree.
"""
import inspect
import math
import random
import typing


def _same(a, b):
    if isinstance(a, float) and isinstance(b, float):
        return (math.isnan(a) and math.isnan(b)) or a == b
    return a == b


def numpy_diff(rng, n=300):
    import numpy as np
    from . import stubs
    fails, count = [], 0
    edge = [0.0, -0.0, 1.0, -1.0, 2.5, float("inf"), float("-inf"), float("nan"), 1e300, -1e300, 3, -7]
    for _ in range(n):
        v, lo, hi = rng.choice(edge + [rng.uniform(-5, 5)]), rng.uniform(-5, 0), rng.uniform(0, 5)
        a, b = stubs.p_clip(v, lo, hi), float(np.clip(v, lo, hi))
        count += 1
        if not _same(float(a), b):
            fails.append(("clip", v, lo, hi, a, b))
    for _ in range(n):
        k = rng.randint(1, 6)
        vec = [rng.choice([0.0, 1.0, 1.0, 2.0, -1.0, float("inf"), float("-inf"), rng.uniform(-3, 3)]) for _ in range(k)]
        a, b = list(stubs.p_argsort(vec)), np.argsort(vec, kind="stable").tolist()
        count += 1
        if a != b:
            fails.append(("argsort", vec, a, b))
        # default-kind argsort must at least order the same keys (ties may differ)
        c = np.argsort(vec).tolist()
        if [vec[i] for i in a] != [vec[i] for i in c]:
            fails.append(("argsort-keys", vec, a, c))
    for _ in range(n):
        k = rng.randint(1, 4)
        x = [rng.choice([0.0, 1.0, -2.0, rng.uniform(-3, 3)]) for _ in range(k)]
        w = [rng.choice([0.0, 1.0, 0.5, rng.uniform(0, 3)]) for _ in range(k)]
        a, b = stubs.p_dot(x, w), float(np.dot(x, w))
        count += 1
        if not math.isclose(a, b, rel_tol=1e-12, abs_tol=1e-12):
            fails.append(("dot", x, w, a, b))
        a, b = stubs.p_average(x), float(np.average(x))
        if not math.isclose(a, b, rel_tol=1e-12, abs_tol=1e-12):
            fails.append(("average", x, a, b))
    # -1 * list, the numpy RNG contracts the stream model relies on
    np.random.seed(rng.randint(0, 2**31))
    for _ in range(50):
        lo, hi = sorted([rng.uniform(-9, 9), rng.uniform(-9, 9)])
        u = np.random.uniform(lo, hi)
        count += 1
        if not (lo <= u <= hi):
            fails.append(("uniform-range", lo, hi, u))
        nn = rng.randint(1, 6)
        c = np.random.choice(range(0, nn))
        if not (0 <= int(c) < nn):
            fails.append(("choice-range", nn, c))
        p = np.random.permutation(range(0, nn)).tolist()
        if sorted(p) != list(range(nn)):
            fails.append(("permutation", nn, p))
        r = np.random.randint(0, nn)
        if not (0 <= r < nn):
            fails.append(("randint", nn, r))
    for good in (None, 0, 42, 2**32 - 1):
        try:
            np.random.seed(good)
        except Exception as e:
            fails.append(("seed-accept", good, repr(e)))
    for bad in (42.0, -1, 2**32):
        try:
            np.random.seed(bad)
            fails.append(("seed-reject", bad))
        except (TypeError, ValueError):
            pass
    np.random.seed(7)
    a = [np.random.uniform(0, 1) for _ in range(3)]
    np.random.seed(7)
    b = [np.random.uniform(0, 1) for _ in range(3)]
    if a != b:
        fails.append(("seed-determinism", a, b))
    return count, fails


def _model_classes():
    import pyvolutionary
    import importlib
    M = importlib.import_module('pyvolutionary.models')
    from pydantic import BaseModel
    from pyvolutionary.abstract import OptimizationAbstract
    out = []
    for n, o in vars(pyvolutionary).items():
        if inspect.isclass(o) and issubclass(o, OptimizationAbstract) and o is not OptimizationAbstract:
            try:
                ann = typing.get_type_hints(o.__init__).get("config")
                cfg = [a for a in typing.get_args(ann) if a is not type(None)][0]
                out.append(cfg)
            except Exception:
                pass
    return out


def _dict_of(obj):
    from pydantic import BaseModel
    d = {}
    for k, v in obj.__dict__.items():
        d[k] = _dict_of(v) if isinstance(v, BaseModel) else v
    priv = getattr(obj, "__pydantic_private__", None) or {}
    for k, v in priv.items():
        if isinstance(v, list) and v and isinstance(v[0], BaseModel):
            d[k] = [_dict_of(x) for x in v]
    return d


def pydantic_diff(rng):
    """lite vs real construction: same exception-ness (ValueError family) and same field dictionary."""
    from . import pydlite
    import importlib
    M = importlib.import_module('pyvolutionary.models')
    from pyvolutionary.enums import TaskType
    fails, count = [], 0

    class _T(M.Task):
        def objective_function(self, x):
            return 0.0

    cases = []
    for lo, hi in [(0.0, 1.0), (1.0, 1.0), (2.0, 1.0), (-1, 3), (0, 0.5)]:
        cases.append((M.ContinuousVariable, dict(name="x", lower_bound=lo, upper_bound=hi)))
    for lbs, ubs in [([0.0, 1.0], [1.0, 2.0]), ([0.0], [1.0, 2.0]), ([0.0, 3.0], [1.0, 2.0]), ([0.0, 2.0], [1.0, 2.0])]:
        cases.append((M.ContinuousMultiVariable, dict(name="m", lower_bounds=lbs, upper_bounds=ubs)))
        cases.append((M.MultiObjectiveVariable, dict(name="o", lower_bounds=lbs, upper_bounds=ubs)))
    for ch in [[1, 2, 3], ["a"], [0.5, "b"]]:
        cases.append((M.DiscreteVariable, dict(name="d", choices=ch)))
    cases.append((M.DiscreteMultiVariable, dict(name="dm", choices=[[1, 2], ["a", "b", "c"]])))
    cases.append((M.PermutationVariable, dict(name="p", items=["a", "b", "c"])))
    for n in (-1, 0, 1, 3):
        cases.append((M.BinaryVariable, dict(name="b", n_vars=n)))
    for p in (None, 0, 1, 3):
        cases.append((M.EarlyStopping, dict(patience=p, min_delta=0.5)))
    cases.append((M.Agent, dict(position=[0.0, 1], cost=1.5, fitness=0.4)))
    cases.append((M.BaseOptimizationConfig, dict(population_size=5, max_cycles=3)))
    cases.append((M.BaseOptimizationConfig, dict(population_size=5, max_cycles=3, fitness_error=None,
                                                 early_stopping=M.EarlyStopping(patience=2, min_delta=0.1))))
    var = M.ContinuousVariable(name="x", lower_bound=0.0, upper_bound=1.0)
    for w in (None, [1.0], [0.5, 0.5], [-1.0, 1.0], [0.0, 0.0]):
        cases.append((_T, dict(variables=[var], objective_weights=w)))
    cases.append((_T, dict(variables=[var, M.BinaryVariable(name="b", n_vars=2)], minmax=TaskType.MAX, seed=None)))
    ag = M.Agent(position=[0.0], cost=1.0, fitness=0.5)
    cases.append((M.Population, dict(agents=[ag, ag], task_type=TaskType.MAX)))
    cases.append((M.Population, dict(agents=[ag], task_type=TaskType.MIN)))
    cases.append((M.OptimizationResult, dict(evolution=[], rates=[0.5], best_solution=ag, task_type=TaskType.MAX)))

    # every algorithm configuration class: defaults from the annotations, in / out of range numeric values
    import ast
    import os
    import pathlib
    repo = os.environ.get("VERIF_REPO", "/repo")
    srcs = [(p, p.read_text()) for p in pathlib.Path(repo, "tests").rglob("*.py")]
    for cfg in _model_classes():
        kw = None
        for p, src in srcs:
            if cfg.__name__ + "(" in src:
                for node in ast.walk(ast.parse(src)):
                    if isinstance(node, ast.Call) and getattr(node.func, "id", None) == cfg.__name__:
                        try:
                            kw = {k.arg: eval(compile(ast.Expression(k.value), "", "eval"),
                                              {"np": __import__("numpy"), "EarlyStopping": M.EarlyStopping})
                                  for k in node.keywords}
                        except Exception:
                            kw = None
                        break
            if kw:
                break
        if not kw:
            continue
        cases.append((cfg, kw))
        for k, v in kw.items():
            ann = cfg.model_fields[k].annotation if k in cfg.model_fields else None
            if isinstance(v, (int, float)) and not isinstance(v, bool):
                for bad in (-1, 0, 1, 10, 0.5, 1.5, -0.5):
                    if ann is int and isinstance(bad, float):
                        continue          # strict type errors are outside the lite model (well-typed inputs)
                    cases.append((cfg, dict(kw, **{k: bad})))
            if isinstance(v, list) and all(isinstance(x, (int, float)) for x in v):
                for bad in ([], v[:1], v + v[:1], [x + 1 for x in v], [-x for x in v], v[::-1]):
                    cases.append((cfg, dict(kw, **{k: bad})))

    def build(cls, kw):
        try:
            return "ok", _dict_of(cls(**kw))
        except ValueError as e:          # pydantic.ValidationError is a ValueError
            loc = None
            if hasattr(e, "errors"):
                try:
                    loc = tuple(e.errors()[0]["loc"])          # field validators: (field,), model validators: ()
                except Exception:
                    loc = "?"
            return "ValueError", (type(e).__name__, loc)
        except Exception as e:
            return type(e).__name__, None

    for cls, kw in cases:
        count += 1
        pydlite.uninstall()
        real = build(cls, kw)
        pydlite.install()
        try:
            lite = build(cls, kw)
        finally:
            pydlite.uninstall()
        if real[0] != lite[0]:
            fails.append(("pydantic-exc", cls.__name__, repr(kw)[:200], real[0], lite[0]))
        elif real[0] == "ValueError" and real[1] != lite[1]:
            fails.append(("pydantic-error-location", cls.__name__, repr(kw)[:200], real[1], lite[1]))
        elif real[0] == "ok" and real[1] != lite[1]:
            fails.append(("pydantic-fields", cls.__name__, repr(kw)[:200], repr(real[1])[:200], repr(lite[1])[:200]))
    return count, fails


def pandas_diff(rng, n=200):
    import pandas as pd
    from . import pdlite
    fails, count = [], 0
    for it in range(n):
        rows, cols = rng.randint(1, 5), rng.choice((1, 2, 2, 4))          # dyadic values, 1/2/4 columns: float arithmetic exact
        tab = [[rng.choice([0.0, 1.0, 1.0, 2.0, -1.0, 0.5]) for _ in range(cols)] for _ in range(rows)]
        asc = rng.random() < 0.5
        recs = [dict({"params": {"i": i}}, **{f"trial_{j + 1}": tab[i][j] for j in range(cols)}) for i in range(rows)]
        tc = [f"trial_{j + 1}" for j in range(cols)]
        out = []
        for mod in (pd, pdlite):
            df = mod.DataFrame(recs)
            df["trial_mean"] = df[tc].mean(axis=1)
            df["trial_std"] = df[tc].std(axis=1)
            df["rank_mean"] = df["trial_mean"].rank(ascending=asc)
            df["rank_std"] = df["trial_std"].rank(ascending=asc)
            df["rank_mean_std"] = df[["rank_mean", "rank_std"]].apply(tuple, axis=1).rank(method="dense", ascending=True)
            best = df[df["rank_mean_std"] == df["rank_mean_std"].min()]
            key = df["rank_mean"] * (len(df) + 1) + df["trial_mean"]
            k2 = (df["trial_mean"] - 1.0) / 2.0
            srt = df.sort_values("trial_mean", ascending=asc)
            rec = [[float(x) for x in df["rank_mean"].values], [float(x) for x in df["rank_mean_std"].values]
                   if cols > 1 else None,
                   best["params"].values[0], float(best["trial_mean"].values[0]),
                   [float(x) for x in key.values], int(key.idxmin()), int(key.idxmax()), float(key.min()), float(key.max()),
                   [float(x) for x in k2.to_numpy()], float(srt["trial_mean"].values[0]), df.iloc[[rows - 1]]["params"].values[0],
                   len(df), list(df.filter(regex=r"^trial_\d$").columns), list(df.filter(like="rank").columns),
                   [float(x) for x in df["trial_mean"].rank(method="min", ascending=asc).values],
                   [math.isnan(float(x)) for x in df["rank_std"].values]]
            if cols > 1:
                rec.append([float(x) for x in df["rank_std"].values])
            out.append(rec)
        count += 1
        if out[0] != out[1]:
            fails.append(("pandas", tab, asc, out[0], out[1]))
    return count, fails


def run(which, seed):
    rng = random.Random(seed)
    failures, summary = [], {}
    for w in which:
        c, f = {"numpy": numpy_diff, "pydantic": pydantic_diff, "pandas": pandas_diff}[w](rng)
        summary[w] = {"cases": c, "disagreements": len(f)}
        failures.extend(f)
    return {"failures": failures, "summary": summary}
