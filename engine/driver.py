"""Exhaustive bounded symbolic execution of one obligation with CrossHair's state space (DESIGN 2.1).

verdict HOLDS        <=> path tree exhausted, no UNKNOWN leaf, assertion evaluated on >= 1 path and true on all
verdict REFUTED      <=> some feasible path returned a failure / raised an undeclared exception (counterexample
                         realised under that path's constraints)
verdict INCONCLUSIVE <=> anything else (timeouts, solver unknown, realisation leaving the tree unexhausted)
"""
import inspect
import sys
import time
import traceback

import z3

from . import sym

_Z3 = {"calls": 0, "time": 0.0}
_orig_check = z3.Solver.check


def _counting_check(self, *a, **k):
    t0 = time.perf_counter()
    try:
        return _orig_check(self, *a, **k)
    finally:
        _Z3["calls"] += 1
        _Z3["time"] += time.perf_counter() - t0


z3.Solver.check = _counting_check

# ---------------------------------------------------------------------------------- which repository code ran?
_ENCODED = set()
_REPO_PREFIX = None
_TOOL = 3


def _on_py_start(code, offset):
    fn = code.co_filename
    if _REPO_PREFIX and fn.startswith(_REPO_PREFIX):
        _ENCODED.add(f"{fn[len(_REPO_PREFIX):].lstrip('/')}:{code.co_qualname}")
    return sys.monitoring.DISABLE


def start_code_monitor(repo_prefix):
    global _REPO_PREFIX
    _REPO_PREFIX = repo_prefix
    try:
        sys.monitoring.use_tool_id(_TOOL, "verif-encoded")
        sys.monitoring.register_callback(_TOOL, sys.monitoring.events.PY_START, _on_py_start)
        sys.monitoring.set_events(_TOOL, sys.monitoring.events.PY_START)
    except Exception:
        pass


def take_encoded():
    out = sorted(_ENCODED)
    _ENCODED.clear()
    try:
        sys.monitoring.restart_events()
    except Exception:
        pass
    return out


class Failure:
    """Returned by an obligation on a violating path: `aspect` names the assertion that failed."""
    def __init__(self, aspect, **detail):
        self.aspect, self.detail = aspect, detail


OK = None


def _model_sample(space):
    """Realise the registry through a side query on the finished path's solver (adds no tree nodes)."""
    try:
        if _orig_check(space.solver) != z3.sat:
            return None
        m = space.solver.model()
        out = {}
        for key, v in sym.registry():
            var = getattr(v, "var", None)
            if var is None:
                out[key] = sym.encode_value(v)
                continue
            val = m.eval(var, model_completion=True)
            if z3.is_int_value(val):
                out[key] = val.as_long()
            elif z3.is_rational_value(val):
                out[key] = float(val.numerator_as_long()) / float(val.denominator_as_long())
            elif z3.is_true(val) or z3.is_false(val):
                out[key] = bool(z3.is_true(val))
            else:
                out[key] = str(val)
        return out
    except Exception:
        return None


def explore(fn, timeout=60.0, per_path_timeout=20.0, known=None, max_samples=1):
    """fn: zero-argument obligation returning OK/None/True, or a Failure, or False.
    known(aspect, inputs, detail) -> finding-id or None: known findings do not stop the exploration."""
    from crosshair.core import explore_paths, deep_realize
    from crosshair.core_and_libs import standalone_statespace  # noqa: F401  (registers library models)
    from crosshair.options import DEFAULT_OPTIONS, AnalysisOptionSet
    from crosshair.statespace import RootNode
    from crosshair.tracers import NoTracing
    from crosshair.util import IgnoreAttempt, UnexploredPath, CrossHairInternal

    options = DEFAULT_OPTIONS.overlay(AnalysisOptionSet(
        per_condition_timeout=timeout, per_path_timeout=per_path_timeout, max_uninteresting_iterations=0))
    root = RootNode()
    out = {"paths": 0, "asserted": 0, "cex": None, "known": [], "samples": [], "inconclusive": None}
    z0 = dict(_Z3)

    def wrapped(_ba):
        sym.begin_path()
        try:
            return fn()
        except sym.Inconclusive as e:
            out["inconclusive"] = f"Inconclusive: {e}"
            raise UnexploredPath() from None
        except TypeError as e:
            # a numpy ufunc without a model met a symbolic value (object dtype): an engine limit, never a verdict
            if "not supported for the input types" in str(e):
                out["inconclusive"] = f"Inconclusive: numpy ufunc without a symbolic model: {str(e)[:120]}"
                raise UnexploredPath() from None
            raise

    def realise_failure(aspect, detail):
        inputs = {}
        for key, v in sym.registry():
            inputs[key] = sym.encode_value(deep_realize(v))
        det = sym.encode_value(deep_realize(detail))
        return {"aspect": aspect, "inputs": inputs, "detail": det}

    def on_done(space, pre_args, args, ret, user_exc, user_exc_stack):
        out["paths"] += 1
        fail = None
        if user_exc is not None:
            tb = "".join(user_exc_stack.format()[-4:]) if user_exc_stack else ""
            fail = ("exception:" + type(user_exc).__name__, {"message": str(user_exc)[:300], "where": tb[-900:]})
        else:
            out["asserted"] += 1
            if isinstance(ret, Failure):
                fail = (ret.aspect, ret.detail)
            elif ret is False:
                fail = ("assertion", {})
        if fail is None:
            if len(out["samples"]) < max_samples:
                with NoTracing():
                    s = _model_sample(space)
                if s is not None:
                    out["samples"].append(s)
            return False
        cex = realise_failure(*fail)
        if known is not None:
            kid = known(cex)
            if kid is not None:
                if not any(k["finding"] == kid for k in out["known"]):
                    cex["finding"] = kid
                    out["known"].append(cex)
                return False          # keep exploring: other violations must still be reported
        out["cex"] = cex
        return True

    t0 = time.time()
    err = None
    try:
        explore_paths(wrapped, inspect.signature(lambda: None), options, root, on_done)
    except BaseException as e:          # NotDeterministic, internal errors: harness error, never a verdict
        if isinstance(e, (KeyboardInterrupt, SystemExit)):
            raise
        err = f"{type(e).__name__}: {e}"[:500] + "\n" + traceback.format_exc()[-1200:]
    stats = {str(k): v for k, v in dict(root.stats()).items()} if hasattr(root, "stats") else {}
    try:
        exhausted = bool(root.child.is_exhausted())
    except Exception:
        exhausted = False
    res = {
        "paths": out["paths"], "asserted": out["asserted"], "exhausted": exhausted, "stats": stats,
        "wall_s": round(time.time() - t0, 3),
        "solver_queries": _Z3["calls"] - z0["calls"], "solver_time_s": round(_Z3["time"] - z0["time"], 3),
        "known": out["known"], "samples": out["samples"],
    }
    unknown = any("UNKNOWN" in k for k in stats)
    if err is not None:
        res["verdict"] = "ERROR"
        res["error"] = err
    elif out["cex"] is not None:
        res["verdict"] = "REFUTED"
        res["cex"] = out["cex"]
    elif exhausted and not unknown and out["asserted"] > 0:
        res["verdict"] = "HOLDS"
    else:
        res["verdict"] = "INCONCLUSIVE"
        res["reason"] = out["inconclusive"] or ("vacuous: assertion never evaluated" if exhausted and not unknown
                                                 else f"not exhausted / unknown leaves: {stats}")
    return res
