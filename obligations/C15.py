"""C15 - the recorded history is faithful and the trend utilities agree with it."""
import itertools
from .common import *          # noqa

U = repo_mod("utils")

META = {
    "explanation": "(a) The real optimize() runs with scripted update rules that rebind the population or mutate the "
                   "population *list* in place (setitem, pop+append, in-place sort, clear+extend, reverse) with "
                   "symbolic costs; the obligation snapshots the population after every cycle and compares every "
                   "recorded generation with its snapshot at the end (positions, costs in the user's sign, fitness), "
                   "MIN and MAX. (b) agent_trend / agent_position / best_agent_trend / best_agent_position of "
                   "utils.py run on results (built by the real optimize()) with g generations of k agents with symbolic "
                   "costs, for every idx and every iteration subset. Oracle: entry for generation i is the cost / "
                   "position of an agent of that generation with exactly idx agents strictly better-or-tied-before "
                   "(idx-th best in the task's direction); best_agent_trend[-1] == best_solution.cost.",
    "bounds": {"quick": "(a) 2-3 agents, 2 cycles, 6 list operations; (b) generations<=2, agents<=3, all idx, all "
                        "non-empty iteration subsets", "thorough": "(a) 3 cycles; (b) generations<=3, agents<=3"},
    "outside": "in-place mutation of recorded Agent objects by an update rule (H1; listed by the monitor)",
    "stubs": ["pydantic-lite", "np.random.seed no-op"],
    "assumptions": ["finite floats as reals (costs only compared / negated)"],
}

from engine import monitor as _monitor          # noqa: E402
META["audit"] = lambda: _monitor.audit(('H1',))

OPS = ["rebind", "setitem", "pop_append", "sort_inplace", "clear_extend", "reverse"]


def apply_op(o, op, new):
    p = o._population
    if op == "rebind":
        o._population = list(new)
    elif op == "setitem":
        for i, a in enumerate(new):
            p[i] = a
    elif op == "pop_append":
        for a in new:
            p.pop(0)
            p.append(a)
    elif op == "sort_inplace":
        p[0] = new[0]
        p.sort(key=lambda a: a.cost)
    elif op == "clear_extend":
        p.clear()
        p.extend(new)
    elif op == "reverse":
        p[-1] = new[-1]
        p.reverse()


def ob_history(op, k, cycles, dname, ps=None):
    direction = DIRS[dname]

    def f():
        with env(allow_seed=True):
            gens = [[agent((g, i), sym.real(f"c{g}.{i}"), fitness=sym.real(f"f{g}.{i}")) for i in range(k)]
                    for g in range(cycles + 1)]
            snaps = []

            def snap(o):
                snaps.append([(list(a.position), a.cost, a.fitness) for a in o._population])

            def step(o, c):
                snap(o)          # the population exactly as it stood after cycle c-1
                apply_op(o, op, gens[c])
            opt = Scripted(M.BaseOptimizationConfig(population_size=ps or k, fitness_error=None, max_cycles=cycles),
                           init=lambda o: list(gens[0]), step=step)
            res = opt.optimize(make_task([cont()], lambda x, i: 0.0, minmax=direction))
            snap(opt)
            if len(res.evolution) != len(snaps):
                return Failure("history-length", got=len(res.evolution), expected=len(snaps))
            for g, (gen, s) in enumerate(zip(res.evolution, snaps)):
                got = [(list(a.position), a.cost, a.fitness) for a in gen.agents]
                exp = [(p, c if direction == MIN else -c, fi) for p, c, fi in s]
                if got != exp:
                    return Failure("recorded-generation-differs-from-the-population-after-that-cycle", generation=g,
                                   got=got, expected=exp)
            return OK
    return f


def build_result(g, k, direction):
    gens = [[agent((j, i), sym.real(f"c{j}.{i}"), fitness=0.5) for i in range(k)] for j in range(g)]
    opt = Scripted(M.BaseOptimizationConfig(population_size=k, fitness_error=None, max_cycles=max(1, g - 1)),
                   init=lambda o: list(gens[0]),
                   step=lambda o, c: setattr(o, "_population", list(gens[min(c, g - 1)])))
    return opt.optimize(make_task([cont()], lambda x, i: 0.0, minmax=direction))


def is_idx_th_best(cost, idx, gen_costs, direction):
    """cost is a valid 'idx-th best' of the multiset: #strictly better <= idx < #better-or-equal"""
    sb = sum(1 for c in gen_costs if better(c, cost, direction))
    be = sum(1 for c in gen_costs if not better(cost, c, direction))
    return sb <= idx < be


def ob_trend(g, k, dname, idx):
    direction = DIRS[dname]

    def f():
        with env(allow_seed=True):
            res = build_result(g, k, direction)
            n = len(res.evolution)
            before = [[(a.position, a.cost) for a in gen.agents] for gen in res.evolution]
            subsets = [None] + [list(s) for r in range(1, n + 1) for s in itertools.combinations(range(n), r)]
            for iters in subsets:
                its = list(range(n)) if iters is None else iters
                tr = U.agent_trend(res, idx, iters)
                ps = U.agent_position(res, idx, iters)
                if len(tr) != len(its) or len(ps) != len(its):
                    return Failure("trend-length", iters=iters)
                for j, i in enumerate(its):
                    gen = res.evolution[i].agents
                    if not is_idx_th_best(tr[j], idx, costs_of(gen), direction):
                        return Failure("agent_trend-is-not-the-idx-th-best-in-the-task-direction", idx=idx, generation=i,
                                       got=tr[j], costs=costs_of(gen))
                    if not any(a.position == ps[j] and is_idx_th_best(a.cost, idx, costs_of(gen), direction)
                               for a in gen):
                        return Failure("agent_position-is-not-the-idx-th-best-agent", idx=idx, generation=i,
                                       got=ps[j], costs=costs_of(gen))
            if idx == 0:
                if U.best_agent_trend(res) != U.agent_trend(res, 0) or \
                        U.best_agent_position(res) != U.agent_position(res, 0):
                    return Failure("best_agent_*-differs-from-agent_*(0)")
                if U.best_agent_trend(res)[-1] != res.best_solution.cost:
                    return Failure("last-entry-of-best_agent_trend-is-not-best_solution.cost",
                                   trend=U.best_agent_trend(res), best=res.best_solution.cost)
            # reading the history must not change it: generation k is still the population as it stood after cycle k
            after = [[(a.position, a.cost) for a in gen.agents] for gen in res.evolution]
            if after != before:
                return Failure("trend-utilities-alter-the-recorded-history", before=before, after=after)
            return OK
    return f


def ob_trend_out_of_range(k_sizes, dname):
    """a rank at or beyond the size of a requested generation has no idx-th best agent: the utilities must not return
    a value for it (generations of different sizes: shrinking populations)"""
    direction = DIRS[dname]

    def f():
        with env(allow_seed=True):
            gens = [[agent((j, i), sym.real(f"c{j}.{i}"), fitness=0.5) for i in range(k)] for j, k in enumerate(k_sizes)]
            opt = Scripted(M.BaseOptimizationConfig(population_size=k_sizes[0], fitness_error=None,
                                                    max_cycles=len(k_sizes) - 1),
                           init=lambda o: list(gens[0]), step=lambda o, c: setattr(o, "_population", list(gens[c])))
            res = opt.optimize(make_task([cont()], lambda x, i: 0.0, minmax=direction))
            for g, k in enumerate(k_sizes):
                for idx in (k, k + 1):
                    for fn in (U.agent_trend, U.agent_position):
                        try:
                            got = fn(res, idx, [g])
                        except IndexError:
                            continue
                        return Failure("a-rank-beyond-the-generation-returns-a-value", utility=fn.__name__, idx=idx,
                                       generation=g, size=k, got=got)
                for idx in range(k):          # ranks inside a smaller generation are still the idx-th best
                    tr = U.agent_trend(res, idx, [g])
                    if not is_idx_th_best(tr[0], idx, costs_of(res.evolution[g].agents), direction):
                        return Failure("agent_trend-is-not-the-idx-th-best-in-the-task-direction", idx=idx, generation=g)
            return OK
    return f


def twin():
    def f():
        with env(allow_seed=True):
            res = build_result(2, 2, MIN)
            return OK if U.agent_trend(res, 0) == U.agent_trend(res, 1) else Failure("twin:best-and-second-differ")
    return f


def obligations(tier):
    th = tier == "thorough"
    obs = []
    for op in OPS:
        for d in ("min", "max"):
            for k, cycles in ((2, 2),) + (((3, 2), (2, 3)) if th else ((3, 1),)):
                obs.append(Ob(f"history[{op},k={k},cycles={cycles},{d}]", ob_history(op, k, cycles, d), 600))
    for d in ("min", "max"):
        obs.append(Ob(f"trend_out_of_range[sizes=3-2-1,{d}]", ob_trend_out_of_range((3, 2, 1), d), 600))
    for d in ("min", "max"):          # live population larger / smaller than the configured population_size
        obs.append(Ob(f"history[rebind,k=3,cycles=1,{d},ps=2]", ob_history("rebind", 3, 1, d, ps=2), 600))
        obs.append(Ob(f"history[rebind,k=2,cycles=1,{d},ps=5]", ob_history("rebind", 2, 1, d, ps=5), 600))
    for g in range(1, (3 if th else 2) + 1):
        for k in range(1, 4):
            if g == 3 and k == 3 and not th:
                continue
            for d in ("min", "max"):
                for idx in range(k):
                    obs.append(Ob(f"trend[g={g},k={k},{d},idx={idx}]", ob_trend(g, k, d, idx), 900))
    obs.append(Ob("twin_vacuity", twin(), 30, expect_refuted=True))
    return obs
