"""C08 - a run does not depend on the optimizer instance's history."""
import inspect
import numpy as np
from .common import *          # noqa
from .funnel import optimizer_classes, config_class, test_config

META = {
    "explanation": "(a) Base-class bookkeeping: the real optimize() is called on one Scripted instance 1-3 times (also on a task "
                   "of another dimension / direction / objective count with agents built by the real _init_agent, and "
                   "the first run's result object must not be altered by the second run); each "
                   "call has its own symbolic mean-fitness history, symbolic fitness_error and enumerated max_cycles / "
                   "early stopping; the last call must execute the same number of cycles and return the same rates / "
                   "generations / best as the same call on a fresh instance. (b) Per class (all 84), arbitrary-pre-state "
                   "pattern: every private numeric field of a constructed instance is overwritten by a fresh solver "
                   "variable ('whatever an earlier run left behind'), then the class's real per-run initialisation path "
                   "(before_initialization, _init_population, after_initialization; concrete task, test-suite "
                   "configuration, real numpy reseeded) runs on the dirty and on a clean instance; a private field that "
                   "ends different is a candidate leak. A candidate is reported only if the API replay - optimize() "
                   "twice on one instance versus once on a fresh one, identically seeded - returns different results; "
                   "otherwise it is listed as an unobservable survivor.",
    "bounds": {"quick": "(a) <=2 earlier runs (one of them possibly aborted by an exception in cycle 1..3), max_cycles<=2 per run; (b) numeric private fields, one task, the "
                        "test-suite configuration", "thorough": "(a) <=2 earlier runs, max_cycles<=3"},
    "outside": "leaks through container-valued fields or state that only differs after particular trajectories (H3); "
               "(b) is refutation-only: absence of a candidate proves nothing about the update rule",
    "stubs": ["pydantic-lite", "np.average pure-Python", "print no-op", "(b) real numpy RNG reseeded per path"],
    "assumptions": ["finite floats as reals"],
}


class _Abort(Exception):
    pass


def one_run(opt, tag, mc, use_fe, patience, abort_at=None):
    fe = sym.shared(f"{tag}.fe", lambda: sym.real(f"{tag}.fitness_error")) if use_fe else None
    md = sym.shared(f"{tag}.md", lambda: sym.real(f"{tag}.min_delta")) if patience else None
    es = M.EarlyStopping(patience=patience, min_delta=md) if patience else None
    opt._config = M.BaseOptimizationConfig(population_size=1, fitness_error=fe, max_cycles=mc, early_stopping=es)
    fits = [sym.shared(f"{tag}.f{c}", lambda c=c: sym.real(f"{tag}.f{c}")) for c in range(mc + 1)]
    opt.init_fn = lambda o: [agent((tag, 0), 0.0, fits[0])]
    def step(o, k):
        if abort_at is not None and k == abort_at:
            raise _Abort()          # an objective running out of budget, a failing worker, an error in an update rule
        o._population = [agent((tag, min(k, mc)), 0.0, fits[min(k, mc)])]
    opt.step_fn = step
    opt.steps = 0
    try:
        res = opt.optimize(make_task([cont()], lambda x, i: 0.0))
    except _Abort:
        return opt.steps, None
    return opt.steps, res


def ob_history(shapes):
    """shapes: list of (max_cycles, use_fe, patience) - the earlier runs followed by the run under test"""
    def f():
        with env(allow_seed=True):
            used = Scripted(None)
            for i, sh in enumerate(shapes[:-1]):
                one_run(used, f"r{i}", *sh)          # (a 4th entry aborts that run by an exception in the given cycle)
            mc, use_fe, pat = shapes[-1]
            s_used, r_used = one_run(used, "last", mc, use_fe, pat)
            s_fresh, r_fresh = one_run(Scripted(None), "last", mc, use_fe, pat)
            d = dict(steps_used=s_used, steps_fresh=s_fresh, rates_used=r_used.rates, rates_fresh=r_fresh.rates)
            if s_used != s_fresh:
                return Failure("used-instance-executes-a-different-number-of-cycles", **d)
            if len(r_used.rates) != len(r_fresh.rates) or list(r_used.rates) != list(r_fresh.rates):
                return Failure("used-instance-returns-different-rates", **d)
            if len(r_used.evolution) != len(r_fresh.evolution):
                return Failure("used-instance-returns-a-different-number-of-generations", **d)
            for ga, gb in zip(r_used.evolution, r_fresh.evolution):
                if tags_of(ga.agents) != tags_of(gb.agents):
                    return Failure("generations-differ", **d)
            if r_used.best_solution.position != r_fresh.best_solution.position:
                return Failure("best_solution-differs", **d)
            return OK
    return f


def inbounds_candidate(decls, prefix):
    out = []
    for i, d in enumerate(decls):
        if d[0] == "cont":
            out.append(sym.real(f"{prefix}{i}", lo=d[1], hi=d[2]))
        elif d[0] == "disc":
            out.append(sym.integer(f"{prefix}{i}", 0, d[1] - 1))
        else:
            raise AssertionError(d)
    return out


def ob_other_task(first, second):
    """run 1 on task A, run 2 on a *different* task B (other dimension / direction / objective count) on the same
    instance: run 2 equals the run on a fresh instance, and the result object of run 1 is not altered by run 2.
    first/second = (variant names, direction, n_objectives); candidates are members (clipping is not the subject)"""
    def f():
        with env(allow_seed=True):
            def run(opt, tag, spec):
                names, dname, k = spec
                vs = build_vars(names)
                decls = leaf_decls(vs)
                F = sym.shared(f"{tag}.F", lambda: {})

                def obj(x, i):
                    if i not in F:
                        F[i] = [sym.real(f"{tag}.F{i}.{j}") for j in range(k)]
                    return list(F[i]) if k > 1 else F[i][0]
                w = sym.shared(f"{tag}.w", lambda: [sym.real(f"{tag}.w{j}", lo=0.0) for j in range(k)]) if k > 1 else None
                t = make_task(vs, obj, minmax=DIRS[dname], weights=w)
                cands = sym.shared(f"{tag}.x", lambda: [inbounds_candidate(decls, f"{tag}.x{g}.") for g in range(2)])
                opt._config = M.BaseOptimizationConfig(population_size=1, fitness_error=None, max_cycles=1)
                opt.init_fn = lambda o: [o._init_agent(list(cands[0]))]
                opt.step_fn = lambda o, n: setattr(o, "_population", [o._init_agent(list(cands[1]))])
                return opt.optimize(t)

            def sig(res):
                return ([[(a.position, a.cost, a.fitness) for a in g.agents] for g in res.evolution], list(res.rates),
                        (res.best_solution.position, res.best_solution.cost))
            used = Scripted(None)
            r1 = run(used, "a", first)
            s1 = sig(r1)
            r2 = run(used, "b", second)
            fresh = run(Scripted(None), "b", second)
            if sig(r2) != sig(fresh):
                return Failure("run-on-another-task-differs-from-a-fresh-instance", used=sig(r2), fresh=sig(fresh))
            if sig(r1) != s1:
                return Failure("an-earlier-result-is-altered-by-a-later-run", before=s1, after=sig(r1))
            return OK
    return f


# ----------------------------------------------------------------------------------------------- (b) per class
class _T(M.Task):
    def objective_function(self, x):
        return float(sum(v * v for v in x))


def _task():
    return _T(variables=[M.ContinuousMultiVariable(name="x", lower_bounds=[-1.0, 0.5, -3.0],
                                                   upper_bounds=[2.0, 5.0, 3.0])], seed=7)


def _task2():
    return _T(variables=[M.ContinuousMultiVariable(name="y", lower_bounds=[-5.12] * 4, upper_bounds=[5.12] * 4)], seed=3)


def _base_fields():
    return set(vars(Scripted(None)).keys()) - {"step_fn", "init_fn", "before_fn", "after_fn", "steps"}


def _same(a, b):
    from pydantic import BaseModel
    if isinstance(a, np.ndarray) or isinstance(b, np.ndarray):
        return isinstance(a, np.ndarray) and isinstance(b, np.ndarray) and a.shape == b.shape and bool(np.all(a == b))
    if isinstance(a, (list, tuple)) and isinstance(b, (list, tuple)):
        return len(a) == len(b) and all(_same(x, y) for x, y in zip(a, b))
    if isinstance(a, BaseModel) and isinstance(b, BaseModel):
        return _same(list(a.__dict__.values()), list(b.__dict__.values()))
    try:
        return bool(a == b)
    except Exception:
        return a is b


def _result_sig(res):
    return ([[list(map(float, np.ravel(np.array(a.position, dtype=float)))) + [float(a.cost)] for a in g.agents]
             for g in res.evolution], [float(r) for r in res.rates])


def api_replay(cls):
    """optimize() twice on one instance vs once on a fresh instance (real code, identical seeds); tried on the
    test-suite configuration and on variants with a longer cycle budget, on two tasks (adaptive state often only matters
    late in a run). Returns the first (second-run signature, fresh signature) pair that differs, else equal ones."""
    import random
    kw = test_config(cls)
    C = config_class(cls)
    variants = [dict(kw)]
    for mc in (25, 40):
        v = dict(kw, max_cycles=mc, fitness_error=None)
        try:
            C(**v)
            variants.append(v)
        except Exception:
            pass
    last = (None, None)
    for v in variants:
        for mk_task in (_task, _task2):
            def run(o, first=False):
                random.seed(11)
                return _result_sig(o.optimize(mk_task() if not first else _task()))
            try:
                fresh = run(cls(C(**v)))
                if run(cls(C(**v))) != fresh:
                    continue          # not deterministic under identical seeds: the comparison says nothing
                used = cls(C(**v))
                run(used, first=True)
                second = run(used)
            except Exception:
                continue
            last = (second, fresh)
            if second != fresh:
                return second, fresh
    return last


def ob_class(cname):
    cls = optimizer_classes()[cname]

    def f():
        if sym.MODE == "replay":
            second, fresh = api_replay(cls)
            if second is not None and second != fresh:
                return Failure("second-run-on-a-used-instance-differs-from-a-fresh-instance", cls=cname,
                               cycles=(len(second[1]), len(fresh[1])), rates_second=second[1][:4], rates_fresh=fresh[1][:4])
            return OK
        with env(rng_deny=False):
            C = config_class(cls)
            kw = test_config(cls)
            clean, dirty = cls(C(**kw)), cls(C(**kw))
            base = _base_fields()
            priv = [k for k in vars(dirty) if k not in base]
            marks = {}
            for k in priv:
                v = getattr(dirty, k)
                if v is None:          # "not computed yet": an earlier run may have left a number behind
                    marks[k] = sym.real(k)
                    setattr(dirty, k, marks[k])
                    continue
                if isinstance(v, bool) or not isinstance(v, (int, float)):
                    continue
                marks[k] = sym.integer(k, -5, 5) if isinstance(v, int) else sym.real(k)
                setattr(dirty, k, marks[k])
            for o in (clean, dirty):
                np.random.seed(1)
                o._task = _task()
                o.before_initialization()
                o._init_population()
                o.after_initialization()
            bad = [k for k in marks if not _same(getattr(clean, k), getattr(dirty, k))]
            if bad:
                return Failure("private-field-survives-the-per-run-initialisation", cls=cname, fields=bad)
            return OK
    return f


def twin():
    def f():
        with env(allow_seed=True):
            o = Scripted(None)
            s, r = one_run(o, "a", 2, False, None)
            return OK if s == 1 else Failure("twin:two-cycles-run")
    return f


def obligations(tier):
    th = tier == "thorough"
    obs = []
    N = 3 if th else 2
    shapes = [(mc, fe, pat) for mc in range(1, N + 1) for fe in (False, True) for pat in (None, 1)]
    for last in shapes:
        obs.append(Ob(f"history[fresh->{last}]".replace(" ", ""), ob_history([last]), 300))
        for first in shapes:
            if not th and (first[2] or last[2]) and first != last:
                continue
            obs.append(Ob(f"history[{first}->{last}]".replace(" ", ""), ob_history([first, last]), 600))
    for a, b, c in (((2, True, None), (1, False, None), (2, True, None)), ((1, True, 1), (2, True, None), (2, False, 1))):
        obs.append(Ob(f"history[{a}->{b}->{c}]".replace(" ", ""), ob_history([a, b, c]), 900))
    # the history may contain a run that was aborted by an exception (in its 1st .. 3rd cycle)
    for ab in (1, 2, 3):
        for last in ((2, True, None), (2, False, 1)) + (((3, True, 1),) if th else ()):
            obs.append(Ob(f"history[aborted(cycle={ab})->{last}]".replace(" ", ""), ob_history([(3, True, None, ab), last]), 600))
    specs = [(("C",), "max", 2), (("C",), "min", 1), (("D3",), "min", 1), (("CM2",), "max", 1), (("C", "D3"), "min", 2)]
    for a in specs:
        for b in specs:
            if a is not b and (th or (specs.index(a) < 3 and specs.index(b) < 4)):
                obs.append(Ob(f"other_task[{'+'.join(a[0])}/{a[1]}/{a[2]}->{'+'.join(b[0])}/{b[1]}/{b[2]}]",
                              ob_other_task(a, b), 600))
    for cname in optimizer_classes():
        obs.append(Ob(f"class[{cname}]", ob_class(cname), 120, refutation_only=True, api_replay_decides=True))
    obs.append(Ob("twin_vacuity", twin(), 30, expect_refuted=True))
    return obs
