"""C06 - a valid problem yields a result; an invalid call is rejected up front."""
from .common import *          # noqa
from .C14 import var_lists, own_bounds

META = {
    "explanation": "(a) Entry validation of the real optimize(): symbolic worker count, mode chosen by the solver from "
                   "{None, serial, thread, process, 'parallel', ''}, configuration present or not: the call is rejected "
                   "with ValueError exactly when it is invalid, and then no cycle has run and the objective was never "
                   "evaluated; (b) Task / variable validators reject exactly the invalid declarations (negative weights, "
                   "objective/weight count mismatch - see also C02 and C13); (c) no internal error in the shared path: "
                   "for every valid task shape within the bound (all variable mixes without mixed permutation lists, "
                   "MIN/MAX, single and multi objective) the real optimize() with a scripted optimizer (random initial "
                   "population from the RNG model, symbolic candidates, greedy replacement) returns a complete "
                   "OptimizationResult in serial, thread and process mode - any exception is a counterexample; (d) "
                   "Task.get_bounds / bandwidth / sum_bounds / is_valid_solution do not raise on those tasks and "
                   "is_valid_solution accepts corrected positions.",
    "bounds": {"quick": "(c) single variables + 7 selected ordered pairs, 2 agents, 1 cycle; workers in [-3,3]; (d) all pairs with dimension<=3",
               "thorough": "(c) all pairs with dimension<=3; 2 cycles for single variables; (d) pairs with dimension<=5"},
    "outside": "crashes inside the 84 update rules (numeric, per algorithm: integer dtypes, NaN->int, cycle budget 1); "
               "tasks mixing a PermutationVariable with other variables (every real optimizer raises numpy's "
               "'inhomogeneous shape' ValueError before the first cycle - whether such a task counts as valid is "
               "ambiguous, see DESIGN); a scalar objective with a one-element weight vector (C02)",
    "stubs": ["np.random.* stream model", "pool model", "pydantic-lite", "np.clip/argsort/dot pure-Python"],
    "assumptions": ["finite floats as reals"],
}

MODES = [None, "serial", "thread", "process", "parallel", "", ModeSolver.THREAD, "SERIAL"]


def ob_entry(has_config):
    def f():
        st = stubs.Stream("np")
        with env(stubs.numpy_stream_layer(lambda: st), stubs.pool_layer()):
            workers = sym.integer("workers", -3, 3) if sym.fork("workers.given") else None
            mode = sym.choice("mode", MODES)
            cfg = M.BaseOptimizationConfig(population_size=2, fitness_error=None, max_cycles=1) if has_config else None
            t = make_task([cont()], lambda x, i: float(i))
            opt = Scripted(cfg)
            valid = has_config and (workers is None or workers > 0) and \
                (mode is None or mode is ModeSolver.THREAD or mode in ("serial", "thread", "process"))
            try:
                res = opt.optimize(t, mode=mode, workers=workers)
            except ValueError:
                if valid:
                    return Failure("valid-call-rejected", mode=mode, workers=workers)
                if opt.steps or t.data["log"]:
                    return Failure("invalid-call-rejected-after-work-was-done", steps=opt.steps,
                                   evaluations=len(t.data["log"]))
                return OK
            if not valid:
                return Failure("invalid-call-accepted", mode=mode, workers=workers, has_config=has_config)
            if res.best_solution is None or len(res.evolution) != 2 or len(res.rates) != 1:
                return Failure("incomplete-result")
            return OK
    return f


def ob_after_rejected(kind):
    """an invalid call is rejected *and leaves nothing behind*: the next valid call on the same instance (arguments
    omitted or given) returns a complete result"""
    def f():
        st = stubs.Stream("np")
        with env(stubs.numpy_stream_layer(lambda: st), stubs.pool_layer()):
            cfg = M.BaseOptimizationConfig(population_size=2, fitness_error=None, max_cycles=1)
            t = make_task([cont()], lambda x, i: float(i))
            opt = Scripted(cfg if kind != "no-config" else None)
            try:
                if kind == "bad-workers":
                    opt.optimize(t, mode="thread", workers=sym.integer("workers", -3, 0))
                elif kind == "bad-mode":
                    opt.optimize(t, mode=sym.choice("mode", ["parallel", "", "SERIAL"]), workers=3)
                elif kind == "bad-weights":
                    opt.optimize(make_task([cont()], lambda x, i: [0.0, 0.0], weights=[1.0]), mode="process", workers=2)
                else:
                    opt.optimize(t)
                return Failure("invalid-call-accepted", kind=kind)
            except ValueError:
                pass
            if kind == "no-config":
                opt._config = cfg
            follow = sym.choice("follow-up", ["omitted", "serial", "thread"])
            kw = {} if follow == "omitted" else {"mode": follow, "workers": 2}
            try:
                res = opt.optimize(t, **kw)
            except Exception as e:
                return Failure("valid-call-after-a-rejected-call-fails", kind=kind, follow_up=follow,
                               error=f"{type(e).__name__}: {str(e)[:160]}")
            # (private fields are not compared: a worker count left behind by a rejected call changes scheduling only)
            if res.best_solution is None or len(res.evolution) != 2:
                return Failure("incomplete-result-after-a-rejected-call")
            return OK
    return f


def ob_weights(k):
    def f():
        with env():
            w = [sym.real(f"w{i}") for i in range(k)]
            try:
                make_task([cont()], lambda x, i: [0.0] * k, weights=w)
            except ValueError:
                return OK if any(x < 0 for x in w) else Failure("non-negative-weights-rejected", w=w)
            return OK if all(x >= 0 for x in w) else Failure("negative-weight-accepted", w=w)
    return f


def ob_count_mismatch(n_obj, n_w, mode="serial"):
    """objective / weight count mismatch (n_obj == 0: scalar objective; n_w == 0: an *empty* weight list) is rejected by
    optimize() with ValueError before any cycle has run"""
    def f():
        st = stubs.Stream("np")
        with env(stubs.numpy_stream_layer(lambda: st), stubs.pool_layer()):
            ret = [sym.real(f"F{j}") for j in range(n_obj)] if n_obj else sym.real("F")
            t = make_task([cont()], lambda x, i: ret, weights=[sym.real(f"w{j}", lo=0.0) for j in range(n_w)])
            opt = Scripted(M.BaseOptimizationConfig(population_size=2, fitness_error=None, max_cycles=2))
            try:
                opt.optimize(t, mode=mode, workers=2)
            except ValueError:
                return OK if opt.steps == 0 else Failure("count-mismatch-rejected-after-cycles-ran", steps=opt.steps)
            except Exception as e:          # e.g. BrokenProcessPool: the rejection must be a ValueError in every mode
                return Failure("count-mismatch-not-rejected-with-ValueError", mode=mode,
                               error=f"{type(e).__name__}: {str(e)[:120]}")
            return Failure("objective/weight-count-mismatch-accepted", n_obj=n_obj, n_w=n_w, steps=opt.steps)
    return f


def ob_run(names, dname, n_obj, mode, cycles):
    def f():
        st = stubs.Stream("np")
        layers = [stubs.numpy_stream_layer(lambda: st)] + ([stubs.pool_layer()] if mode != "serial" else [])
        with env(*layers):
            vs = build_vars(names)
            decls = leaf_decls(vs)
            w = [0.5] * n_obj if n_obj > 1 else None
            t = make_task(vs, (lambda x, i: [float(100 - i)] * n_obj) if n_obj > 1 else (lambda x, i: float(100 - i)),
                          minmax=DIRS[dname], weights=w)

            def step(o, c):
                o._greedy_select_population([o._init_agent(sym_candidate(decls, prefix=f"x{c}.{j}.")) for j in range(2)])
            opt = Scripted(M.BaseOptimizationConfig(population_size=2, fitness_error=None, max_cycles=cycles), step=step)
            try:
                res = opt.optimize(t, mode=mode, workers=2)
            except Exception as e:
                return Failure("internal-error-on-a-valid-task", error=f"{type(e).__name__}: {str(e)[:200]}",
                               variables=list(names))
            if not isinstance(res, M.OptimizationResult) or res.best_solution is None or \
                    len(res.evolution) != cycles + 1 or len(res.rates) != cycles:
                return Failure("incomplete-result")
            return OK
    return f


def ob_task_helpers(names):
    def f():
        with env():
            vs = build_vars(names)
            decls = leaf_decls(vs)
            t = make_task(vs, lambda x, i: 0.0)
            try:
                lb, ub = t.get_bounds()
                t.bandwidth()
                t.sum_bounds()
                pos = t.correct_solution(sym_candidate(decls))
                ok = t.is_valid_solution(pos)
            except Exception as e:
                return Failure("task-helper-raises-on-a-valid-task", error=f"{type(e).__name__}: {str(e)[:200]}",
                               variables=list(names))
            if not ok:
                return Failure("is_valid_solution-rejects-a-corrected-position", position=pos)
            return OK
    return f


def twin():
    def f():
        with env(allow_seed=True):
            opt = Scripted(M.BaseOptimizationConfig(population_size=1, fitness_error=None, max_cycles=1),
                           init=lambda o: [agent(0, 0.0, 0.5)])
            try:
                opt.optimize(make_task([cont()], lambda x, i: 0.0), workers=sym.integer("workers", -1, 1))
            except ValueError:
                return Failure("twin:some-worker-count-is-rejected")
            return OK
    return f


QUICK_PAIRS = [("C", "D3"), ("D3", "C"), ("CM1", "B1"), ("DM1", "C"), ("B1", "DM1"), ("C", "CM1"), ("MO2", "D3")]


def no_mixed_perm(names):
    return not (len(names) > 1 and any(n.startswith("P") for n in names))


def obligations(tier):
    th = tier == "thorough"
    obs = [Ob("entry[config]", ob_entry(True), 600), Ob("entry[no-config]", ob_entry(False), 300)]
    for k in (1, 2, 3):
        obs.append(Ob(f"weights[k={k}]", ob_weights(k), 60))
    for kind in ("bad-workers", "bad-mode", "bad-weights", "no-config"):
        obs.append(Ob(f"after_rejected[{kind}]", ob_after_rejected(kind), 300))
    for n_obj, n_w in ((0, 0), (0, 2), (1, 0), (1, 2), (2, 0), (2, 1), (2, 3), (3, 2)):
        obs.append(Ob(f"count_mismatch[obj={n_obj},w={n_w}]", ob_count_mismatch(n_obj, n_w), 120))
        if (n_obj, n_w) in ((2, 3), (0, 2)):
            for mode in ("thread", "process"):
                obs.append(Ob(f"count_mismatch[obj={n_obj},w={n_w},{mode}]", ob_count_mismatch(n_obj, n_w, mode), 300))
    lists = [n for n in var_lists(tier) if no_mixed_perm(n) and len(n) <= 2]
    for names in lists:
        tag = "+".join(names)
        d = flat_size(names)
        obs.append(Ob(f"helpers[{tag}]", ob_task_helpers(names), 300))
        if (len(names) == 1 and (th or d <= 2)) or (th and d <= 3) or names in QUICK_PAIRS:
            for dname, n_obj in (("min", 1), ("max", 2)):
                obs.append(Ob(f"run[{tag},{dname},k={n_obj},serial]",
                              ob_run(names, dname, n_obj, "serial", 2 if th and names in (("C",), ("D3",)) else 1), 900))
    for mode in ("thread", "process"):
        for names in (("C",), ("D3",)) + ((("C", "B1"), ("P3",)) if th else ()):
            obs.append(Ob(f"run[{'+'.join(names)},max,k=2,{mode}]", ob_run(names, "max", 2, mode, 1), 900))
    obs.append(Ob("twin_vacuity", twin(), 30, expect_refuted=True))
    return obs
