"""The candidate -> agent funnel shared by C01 / C02 / C05 / C12:
_init_agent -> Task.initial_solution -> correct_solution -> Variable.correct ; _fcn -> Task.solve -> objective_function ;
np.dot with the weights ; calculate_fitness ; Agent(...)   (+ the 19 _init_agent overrides).
"""
import ast
import inspect
import os
import pathlib
import typing

import numpy as np

from .common import *          # noqa


def optimizer_classes():
    import pyvolutionary
    return {n: o for n, o in sorted(vars(pyvolutionary).items())
            if inspect.isclass(o) and issubclass(o, A.OptimizationAbstract) and o is not A.OptimizationAbstract}


def config_class(cls):
    ann = typing.get_type_hints(cls.__init__).get("config")
    return [a for a in typing.get_args(ann) if a is not type(None)][0]


_TEST_CFG = {}


def test_config(cls):
    """keyword arguments of the configuration the repository's own test-suite uses for this optimizer"""
    C = config_class(cls)
    if C.__name__ in _TEST_CFG:
        return dict(_TEST_CFG[C.__name__])
    repo = os.environ.get("VERIF_REPO", "/repo")
    for p in sorted(pathlib.Path(repo, "tests").rglob("*.py")):
        src = p.read_text()
        if C.__name__ + "(" not in src:
            continue
        for node in ast.walk(ast.parse(src)):
            if isinstance(node, ast.Call) and getattr(node.func, "id", None) == C.__name__:
                try:
                    kw = {k.arg: eval(compile(ast.Expression(k.value), "", "eval"),
                                      {"np": np, "EarlyStopping": M.EarlyStopping}) for k in node.keywords}
                except Exception:
                    continue
                _TEST_CFG[C.__name__] = kw
                return dict(kw)
    return None


def init_agent_overrides():
    return [n for n, o in optimizer_classes().items() if "_init_agent" in vars(o)]


def make_optimizer(cname, task):
    """base class (Scripted) or a real optimizer with the test-suite configuration, ready for _init_agent"""
    if cname == "base":
        o = Scripted(config(population_size=3))
    else:
        cls = optimizer_classes()[cname]
        o = cls(config_class(cls)(**test_config(cls)))
    o._task = task
    if cname != "base":
        np.random.seed(0)          # extra agent fields (velocities, ...) use real draws, reseeded on every path
        o.before_initialization()
    return o


class Funnel:
    """one execution of the real _init_agent on a symbolic candidate with an uninterpreted objective"""
    def __init__(self, names, cname="base", minmax=MIN, n_obj=1, kind="real", weights="sym", symbolic_bounds=False,
                 extra_coords=0, mutate=False, f_kind="real"):
        self.vars = build_vars(names, symbolic_bounds)
        self.decls = leaf_decls(self.vars)
        self.minmax, self.n_obj = minmax, n_obj
        # objective values: finite, or (f_kind="ext") also +inf / -inf - "death penalty" objectives are legal
        mkF = {"real": sym.real, "ext": sym.ext_real, "int": lambda n: sym.integer(n, -3, 3)}[f_kind]
        self.F = [mkF(f"F{j}") for j in range(n_obj)]
        if n_obj == 1 and weights != "list1":
            self.w = None
        else:
            self.w = [sym.real(f"w{j}", lo=0.0) for j in range(n_obj)]
        ret = self.F[0] if self.w is None else list(self.F)          # list1: a one-objective list with one weight
        self.task = make_task(self.vars, lambda x, i: ret, minmax=minmax, weights=self.w, mutate=mutate)
        self.opt = make_optimizer(cname, self.task)
        self.x = sym_candidate(self.decls, kind=kind) + [sym.real(f"extra{i}") for i in range(extra_coords)]
        self.log = self.task.data["log"]

    def run(self):
        self.agent = self.opt._init_agent(list(self.x))
        return self.agent

    def user_cost(self):
        if self.w is None:
            return self.F[0]
        tot = 0.0
        for f, w in zip(self.F, self.w):
            tot = tot + f * w
        return tot


def fitness_of(c):
    """the documented function of the reported cost"""
    return 1 / (c + 1) if c >= 0 else 1 + abs(c)


def low_precision_cases():
    """concrete candidates made of numpy scalars of lower precision (float32 / float16) beyond bounds that are not
    representable in that precision, for the real _init_agent / Task.solve / _fcn: np.clip works in the scalar's own
    precision, so the rounded bound can land outside the declared domain.
    yields (label, decls, optimizer, task, candidate)"""
    for lo, hi in ((0.0, 0.1), (-0.3, 1 / 3)):
        for mk in (np.float32, np.float16):
            for raw in ([5.0, 7.0], [-5.0, 0.7], [0.05, 1.2]):
                vs = [M.ContinuousVariable(name="c", lower_bound=lo, upper_bound=hi),
                      M.DiscreteVariable(name="d", choices=["a", "b", "c"])]
                task = make_task(vs, lambda x, i: 1.5)
                yield f"{mk.__name__}{raw}@[{lo},{hi}]", leaf_decls(vs), make_optimizer("base", task), task, [mk(r) for r in raw]
