"""C07 - a seeded run is reproducible."""
import os
import random as _pyrandom
import numpy as np
from .common import *          # noqa

_REAL_SEED = np.random.seed

META = {
    "explanation": "(a) Task(seed=s) for a symbolic integer s in [0, 2^32) (and s=None): the real Task constructor and "
                   "the real optimize() hand np.random.seed a value its documented contract accepts (None or an int in "
                   "range; a float raises TypeError on numpy 2.x), and do so before the first random draw. (b) "
                   "Self-composition: two executions of the real optimize() inside one symbolic path, same seed; the "
                   "numpy global stream is modelled as a function of (seed, index) - both runs share those solver "
                   "variables - while the standard library's `random` gets an independent, unseeded stream per run. The "
                   "scripted update rule draws positions through the task (np.random.uniform / choice / permutation) "
                   "and calls the randomness-using helpers get_partner_index and random_selection. Oracle: identical "
                   "positions, costs, fitness and rates in every generation.",
    "bounds": {"quick": "population 2-3, 1-2 cycles, retry loop of get_partner_index <= 3 draws", "thorough": "population 3, 2 cycles"},
    "outside": "randomness inside the 84 update rules (H4: a module-level grep of `random.` / `default_rng` is in the "
               "monitor); get_levy_flight_step (np.random.normal: no model)",
    "stubs": ["np.random.seed/uniform/random/choice/randint/permutation -> stream keyed by (seed,index)",
              "random.randint/random -> independent stream per run", "every other random entry point: deny (inconclusive)"],
    "assumptions": ["np.random.seed(s) accepts None or int in [0,2^32) and raises for float (spot-checked each run)",
                    "the numpy global stream is a deterministic function of the seed (spot-checked)"],
}

from engine import monitor as _monitor          # noqa: E402
META["audit"] = lambda: _monitor.audit(('H4',))


def ob_seed_contract(with_seed, draw_in_hook=None):
    def f():
        events = []

        def on_seed(s):
            events.append(("seed", s))
            if sym.MODE == "replay":
                _REAL_SEED(s)          # the real numpy decides whether it accepts the value it is handed
        st = stubs.Stream("np")
        orig_unit = st.unit

        def unit():
            events.append(("draw",))
            return orig_unit()
        st.unit = unit
        with env(stubs.numpy_stream_layer(lambda: st, on_seed=on_seed)):
            s = sym.integer("seed", 0, 2 ** 32 - 1) if with_seed else None
            t = make_task([cont()], lambda x, i: 0.0, seed=s)
            hook = (lambda o: np.random.random()) if draw_in_hook else None          # e.g. FireHawk, CoralReef draw here
            opt = Scripted(M.BaseOptimizationConfig(population_size=2, fitness_error=None, max_cycles=1),
                           before=hook if draw_in_hook == "before" else None,
                           after=hook if draw_in_hook == "after" else None)
            try:
                opt.optimize(t)
            except TypeError as e:
                if sym.MODE == "replay":          # the real np.random.seed rejects the value it was handed
                    return Failure("np.random.seed-receives-a-non-integer", error=str(e)[:200])
                raise
            if not events or events[0][0] != "seed":
                return Failure("no-seeding-before-the-first-draw", events=[e[0] for e in events])
            got = events[0][1]
            if with_seed:
                if not is_int(got):
                    return Failure("np.random.seed-receives-a-non-integer", seed=s)
                if got != s:
                    return Failure("np.random.seed-receives-another-value", seed=s, got=got)
            elif got is not None:
                return Failure("np.random.seed-receives-a-value-for-an-unseeded-task", got=got)
            if sum(1 for e in events if e[0] == "seed") != 1:
                return Failure("seeded-more-than-once")
            return OK
    return f


def ob_two_runs(names, n, cycles, helpers, hook_draws=False, same_task=False):
    """same_task: both runs use the very same task object (state kept inside the task or its variables between two
    runs is not controlled by the seed either)"""
    def f():
        results = []
        seed = sym.integer("seed", 0, 2 ** 32 - 1)
        shared_task = []
        for run in ("A", "B"):
            holder = {"np": None}

            def on_seed(s, holder=holder):
                holder["np"] = stubs.Stream("np@seed", max_draws=(3 * n + 1) if helpers else 40)          # same seed => same stream variables
            py = stubs.Stream(f"py@{run}", max_draws=6)                        # stdlib random: not seeded by the task
            with env(stubs.numpy_stream_layer(lambda: holder["np"], on_seed=on_seed),
                     stubs.stdlib_stream_layer(lambda: py)):
                # costs by call index: equal call sequences give equal costs, so sorting never forks on positions
                if same_task and shared_task:
                    t = shared_task[0]
                    t.data["log"].clear()
                else:
                    t = make_task(build_vars(names), lambda x, i: float(100 - i), seed=seed)          # later candidates always win
                    shared_task.append(t)

                def step(o, c):
                    new = []
                    for j in range(n):
                        if "partner" in helpers:
                            k = H.get_partner_index(j, n)
                            base = o._population[k].position
                        elif "selection" in helpers:
                            k = H.random_selection([1.0 / n] * n)
                            base = o._population[k].position
                        elif "roulette-flat" in helpers:          # the whole population ties: the flat-wheel branch
                            k = int(H.roulette_wheel_indexes(np.array([1.0] * n))[0])
                            base = o._population[k].position
                        elif "roulette" in helpers:
                            k = int(H.roulette_wheel_indexes(np.array([float(q) for q in range(n)]))[0])
                            base = o._population[k].position
                        else:
                            base = None
                        new.append(o._init_agent(base if base is not None and j % 2 == 0 else None))
                    o._greedy_select_population(new)
                # the per-run hooks of an algorithm may draw too (FireHawk, CoralReef): the draw perturbs the first agent
                marks = []
                hook = (lambda o: marks.append(np.random.random())) if hook_draws else None
                opt = Scripted(M.BaseOptimizationConfig(population_size=n, fitness_error=None, max_cycles=cycles),
                               step=step, before=hook, after=hook)
                res = opt.optimize(t)
                results.append(res)
                if hook_draws:
                    res.rates.extend(marks)
        ra, rb = results
        if len(ra.evolution) != len(rb.evolution) or list(ra.rates) != list(rb.rates):
            return Failure("rates-differ", a=ra.rates, b=rb.rates)
        for g, (ga, gb) in enumerate(zip(ra.evolution, rb.evolution)):
            pa, pb = [a.position for a in ga.agents], [a.position for a in gb.agents]
            if pa != pb:
                return Failure("positions-differ-between-two-runs-with-the-same-seed", generation=g, a=pa, b=pb)
            if costs_of(ga.agents) != costs_of(gb.agents) or [a.fitness for a in ga.agents] != [a.fitness for a in gb.agents]:
                return Failure("costs-differ-between-two-runs-with-the-same-seed", generation=g)
        return OK
    return f


def ob_hash_order(n):
    """string hashing is salted per interpreter process, so the iteration order of a set of non-numeric labels is an
    environment choice the seed does not control: decoding a permutation must not depend on it. Two 'processes' = two
    independent solver-chosen iteration orders; replay: real interpreters with PYTHONHASHSEED=0..3."""
    items = ["delta", "alpha", "charlie", "bravo", "echo"][:n]

    def f():
        if sym.MODE == "replay":
            import subprocess
            import sys
            code = ("import importlib;M=importlib.import_module('pyvolutionary.models');"
                    f"v=M.PermutationVariable(name='p',items={items!r});print(v.decode(list(range({n}))))")
            outs = {subprocess.run([sys.executable, "-c", code], capture_output=True, text=True,
                                   env=dict(os.environ, PYTHONHASHSEED=str(h))).stdout for h in range(4)}
            return OK if len(outs) == 1 else Failure("decoding-depends-on-the-hash-salt", outputs=sorted(outs))
        with env(stubs.arbitrary_set_order_layer()):
            decoded = []
            for proc in ("A", "B"):
                v = M.PermutationVariable(name="p", items=list(items))
                decoded.append(v.decode(list(range(n))))
            if decoded[0] != decoded[1]:
                return Failure("decoding-depends-on-set-iteration-order", a=decoded[0], b=decoded[1])
            return OK
    return f


def twin():
    """reachability: with *different* numpy streams the two runs may differ"""
    def f():
        outs = []
        for run in ("A", "B"):
            st = stubs.Stream(f"np@{run}")
            with env(stubs.numpy_stream_layer(lambda: st)):
                t = make_task([cont()], lambda x, i: 0.0)
                opt = Scripted(M.BaseOptimizationConfig(population_size=1, fitness_error=None, max_cycles=1))
                outs.append(opt.optimize(t).evolution[0].agents[0].position)
        return OK if outs[0] == outs[1] else Failure("twin:unseeded-runs-differ")
    return f


def obligations(tier):
    th = tier == "thorough"
    obs = [Ob("seed_contract[int]", ob_seed_contract(True), 120), Ob("seed_contract[None]", ob_seed_contract(False), 60),
           Ob("seed_contract[int,draw-in-before_initialization]", ob_seed_contract(True, "before"), 120),
           Ob("seed_contract[int,draw-in-after_initialization]", ob_seed_contract(True, "after"), 120),
           Ob("two_runs[C,hooks-draw]", ob_two_runs(("C",), 2, 1, (), hook_draws=True), 600)]
    for names in (("C",), ("D3",), ("P3",), ("C", "B1")):
        n = 1 if names == ("P3",) and not th else 2          # (two permutation agents: 6^4 stream orders)
        obs.append(Ob(f"two_runs[{'+'.join(names)},plain,n={n}]", ob_two_runs(names, n, 1, ()), 600))
    obs.append(Ob("two_runs[C,selection,n=2]", ob_two_runs(("C",), 2, 1, ("selection",)), 900))
    for names in (("P3",), ("C", "D3")):
        obs.append(Ob(f"two_runs_same_task[{'+'.join(names)},n=1]", ob_two_runs(names, 1, 1, (), same_task=True), 600))
    obs.append(Ob("two_runs[C,roulette-flat,n=3]", ob_two_runs(("C",), 3, 1, ("roulette-flat",)), 900))
    obs.append(Ob("two_runs[C,roulette,n=3]", ob_two_runs(("C",), 3, 1, ("roulette",)), 900))
    obs.append(Ob("two_runs[C,partner,n=3]", ob_two_runs(("C",), 3, 1, ("partner",)), 1800))   # n=2: partner is forced
    if th:
        obs.append(Ob("two_runs[C,selection,n=3]", ob_two_runs(("C",), 3, 1, ("selection",)), 1800))
    if th:
        obs.append(Ob("two_runs[C,plain,n=2,cycles=2]", ob_two_runs(("C",), 2, 2, ()), 1800))
    for n in (2, 3):
        obs.append(Ob(f"hash_order[items={n}]", ob_hash_order(n), 300))
    obs.append(Ob("twin_vacuity", twin(), 60, expect_refuted=True))
    return obs
