"""C17 - elitist optimizers never lose their best solution."""
from .common import *          # noqa
from .C16 import greedy_classes, sub_agent
import typing

META = {
    "explanation": "Best (lowest internal) cost is shown non-increasing across one application of each elitist helper "
                   "from an arbitrary symbolic population: _greedy_select_population (serial and pooled), "
                   "_extend_and_trim_population, _replace_and_trim_population on a merged population, sort_and_trim(n>=1) "
                   "and the _greedy_select_agent overrides; and through the real optimize() with scripted elitist update "
                   "rules (greedy replacement by fresh candidates / merge-sort-trim / sort-then-replace-the-tail as in cuckoo search) the reported best cost of "
                   "generation k+1 is never worse than that of generation k, for MIN and MAX, and best_solution is the "
                   "best agent ever recorded.",
    "bounds": {"quick": "helpers: 2-3 incumbents + 2-3 candidates (2+2 also with +-inf kinds for the first incumbent and candidate); optimize(): 2 agents, 2 cycles",
               "thorough": "helpers 3+3; optimize(): + (3 agents, 1 cycle), (1 agent, 3 cycles)"},
    "outside": "that each of the ~70 elitist update rules only replaces through these helpers (H6)",
    "stubs": ["pydantic-lite", "pool model", "np.random.seed no-op"],
    "assumptions": ["finite floats as reals (costs only compared)"],
}

from engine import monitor as _monitor          # noqa: E402
META["audit"] = lambda: _monitor.audit(('H1', 'H7'))


def best_of(agents):
    m = agents[0].cost
    for a in agents[1:]:
        if a.cost < m:
            m = a.cost
    return m


def ob_helper(which, k, j, mode="serial", ext=False):
    """ext: the first incumbent and the first candidate may also cost +inf / -inf (an objective unbounded at a
    reachable point): -inf is the best possible internal cost and must survive like any other"""
    def f():
        layers = [stubs.pool_layer()] if mode != "serial" else []
        with env(*layers):
            cur = [agent(("o", i), (sym.ext_real if ext and i == 0 else sym.real)(f"o{i}")) for i in range(k)]
            new = [agent(("n", i), (sym.ext_real if ext and i == 0 else sym.real)(f"n{i}")) for i in range(j)]
            opt = Scripted(config(population_size=k))
            opt._population = list(cur)
            opt._mode = ModeSolver(mode)
            before = best_of(cur)
            if which == "greedy":
                opt._greedy_select_population(list(new))
            elif which == "extend_trim":
                opt._extend_and_trim_population(list(new))
            elif which == "replace_trim_merged":
                opt._replace_and_trim_population(list(cur) + list(new))
            elif which == "sort_and_trim":
                opt._population = H.sort_and_trim(list(cur) + list(new), sym.choice("n", list(range(1, k + j + 1))))
            after = best_of(opt._population)
            if after > before:
                return Failure(which + ":best-cost-got-worse", before=before, after=after)
            if which != "sort_and_trim" and min(costs_of(cur + new)) != after:
                return Failure(which + ":best-of-the-union-lost", after=after)
            return OK
    return f


def ob_greedy_nan():
    """a candidate whose cost is NaN (objective undefined there) never replaces an agent with a defined cost"""
    def f():
        with env():
            opt = Scripted(config())
            inc = agent("inc", sym.ext_real("inc"))
            got = opt._greedy_select_agent(inc, agent("ch", float("nan")))
            if got.position != ["inc"]:
                return Failure("greedy:a-NaN-candidate-replaces-a-valid-agent", inc=inc.cost)
            opt._population = [inc, agent("b", sym.real("b"))]
            best = best_of(opt._population)
            opt._greedy_select_population([agent("n1", float("nan")), agent("n2", float("nan"))])
            if not best_of(opt._population) == best:
                return Failure("greedy_population:NaN-candidates-lose-the-best", before=best, after=costs_of(opt._population))
            return OK
    return f


def ob_greedy_override(cname, cls):
    def f():
        st = stubs.Stream("np")
        with env(stubs.numpy_stream_layer(lambda: st)):
            opt = cls.__new__(cls)
            acls = typing.get_type_hints(cls._greedy_select_agent).get("agent", Agent)
            inc, ch = sub_agent(acls, "inc", sym.real("inc")), sub_agent(acls, "ch", sym.real("ch"))
            got = opt._greedy_select_agent(inc, ch)
            return OK if not got.cost > inc.cost else Failure("greedy-override:kept-a-worse-agent", inc=inc.cost,
                                                               ch=ch.cost, got=got.cost)
    return f


def ob_optimize(rule, n, cycles, dname):
    direction = DIRS[dname]

    def f():
        with env(allow_seed=True):
            init = [agent((0, i), sym.real(f"c0.{i}"), 0.5) for i in range(n)]
            cand = [[agent((g, i), sym.real(f"c{g}.{i}"), 0.5) for i in range(n)] for g in range(1, cycles + 1)]

            def step(o, c):
                if rule == "greedy":
                    o._greedy_select_population(list(cand[c - 1]))
                elif rule == "extend_trim":
                    o._extend_and_trim_population(list(cand[c - 1]))
                elif rule == "sorted_tail_replacement":
                    # cuckoo search / forest: sort with sort_and_trim (nothing to trim), then abandon the worst nests -
                    # elitist because the best agent is first after the sort
                    o._population = H.sort_and_trim(o._population, n)
                    o._population[-1] = cand[c - 1][0]
                else:
                    o._population = [o._greedy_select_agent(a, b) for a, b in zip(o._population, cand[c - 1])]
            opt = Scripted(M.BaseOptimizationConfig(population_size=n, fitness_error=None, max_cycles=cycles),
                           init=lambda o: list(init), step=step)
            res = opt.optimize(make_task([cont()], lambda x, i: 0.0, minmax=direction))

            def gen_best(gen):
                m = gen.agents[0].cost
                for a in gen.agents[1:]:
                    if better(a.cost, m, direction):
                        m = a.cost
                return m
            bests = [gen_best(g) for g in res.evolution]
            for a, b in zip(bests, bests[1:]):
                if better(a, b, direction):
                    return Failure("best-cost-of-a-later-generation-is-worse", bests=bests)
            for g in res.evolution:
                for a in g.agents:
                    if better(a.cost, res.best_solution.cost, direction):
                        return Failure("best_solution-is-not-the-best-ever-recorded", best=res.best_solution.cost,
                                       other=a.cost)
            return OK
    return f


def twin():
    def f():
        with env(allow_seed=True):
            gens = [[agent((g, 0), sym.real(f"c{g}"), 0.5)] for g in range(2)]
            opt = Scripted(M.BaseOptimizationConfig(population_size=1, fitness_error=None, max_cycles=1),
                           init=lambda o: list(gens[0]), step=lambda o, c: setattr(o, "_population", list(gens[c])))
            res = opt.optimize(make_task([cont()], lambda x, i: 0.0))
            a, b = res.evolution[0].agents[0].cost, res.evolution[1].agents[0].cost
            return OK if not b > a else Failure("twin:a-non-elitist-rule-can-get-worse")
    return f


def obligations(tier):
    th = tier == "thorough"
    obs = []
    for which in ("greedy", "extend_trim", "replace_trim_merged", "sort_and_trim"):
        for k, j in ((2, 2), (3, 3)) if th else ((2, 2), (3, 2) if which != "greedy" else (3, 3)):
            obs.append(Ob(f"helper[{which},k={k},j={j}]", ob_helper(which, k, j), 600))
        obs.append(Ob(f"helper_inf[{which},k=2,j=2]", ob_helper(which, 2, 2, ext=True), 600))
    for mode in ("thread", "process"):
        obs.append(Ob(f"helper[greedy,k=2,j=2,{mode}]", ob_helper("greedy", 2, 2, mode), 600))
    obs.append(Ob("greedy_nan_candidate", ob_greedy_nan(), 120))
    for cname, cls in greedy_classes():
        if cls is not None:
            obs.append(Ob(f"greedy_override[{cname}]", ob_greedy_override(cname, cls), 60))
    for rule in ("greedy", "extend_trim", "pairwise", "sorted_tail_replacement"):
        for d in ("min", "max"):
            for n, cycles in ((2, 2),) + (((3, 1), (1, 3)) if th else ()):          # 6 symbolic costs = 4 683 weak orders
                if rule == "sorted_tail_replacement" and n == 1:
                    continue          # with a single agent the tail *is* the best: the rule is not elitist
                obs.append(Ob(f"optimize[{rule},n={n},cycles={cycles},{d}]", ob_optimize(rule, n, cycles, d), 900))
    obs.append(Ob("twin_vacuity", twin(), 30, expect_refuted=True))
    return obs
