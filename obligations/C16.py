"""C16 - selection helpers return exactly the best / worst members asked for."""
from .common import *          # noqa
import pyvolutionary

META = {
    "explanation": "All selection helpers of helpers.py and the greedy / trim helpers of abstract.py are executed on "
                   "populations of k agents whose costs are solver variables (ties inside every path; optionally "
                   "+inf/-inf kinds); n and the direction are enumerated, one exhaustive exploration each. Oracle: "
                   "returned agents are n distinct members (by identity), ordered, and no omitted agent is strictly "
                   "better (worse); *_indexes designate agents with the same costs; the caller's list is untouched.",
    "bounds": {"quick": "k<=4 finite costs (all n, both directions), k<=3 with +-inf kinds; greedy/trim k<=3",
               "thorough": "k<=6 finite costs, k<=4 with +-inf kinds; greedy/trim k<=4"},
    "outside": "NaN costs; populations larger than the bound; float rounding (costs are only compared)",
    "stubs": ["np.argsort -> stable pure-Python argsort (differentially validated)", "pydantic model_construct for agents"],
    "assumptions": ["finite floats modelled as reals: the helpers only compare costs (DESIGN 2.3)",
                    "argsort tie order: stable model; the oracle never depends on the order of ties"],
}


def mk_pop(k, inf):
    mk = sym.ext_real if inf else sym.real
    return [agent(i, mk(f"c{i}")) for i in range(k)]


def check_selection(pop, before, got, n, direction, which):
    """got: list of agents returned; which: 'best' | 'worst'"""
    if len(got) != n:
        return Failure(f"{which}:count", n=n, got=len(got))
    ids = [id(a) for a in pop]
    gid = [id(a) for a in got]
    if any(g not in ids for g in gid) or len(set(gid)) != len(gid):
        return Failure(f"{which}:members", tags=tags_of(got))
    if [id(a) for a in pop] != before[0] or costs_of(pop) != before[1]:
        return Failure(f"{which}:caller-list-mutated")
    omitted = [a for a in pop if id(a) not in gid]
    for o in omitted:
        for g in got:
            if which == "best" and better(o.cost, g.cost, direction):
                return Failure("best:omitted-better", costs=costs_of(pop), got=tags_of(got))
            if which == "worst" and better(g.cost, o.cost, direction):
                return Failure("worst:omitted-worse", costs=costs_of(pop), got=tags_of(got))
    # ordered: best first / worst last == non-worsening sequence in the direction
    for a, b in zip(got, got[1:]):
        if better(b.cost, a.cost, direction):
            return Failure(f"{which}:order", costs=costs_of(pop), got=tags_of(got))
    return OK


def ob_best_worst(k, n, dname, inf):
    direction = DIRS[dname]

    def f():
        with env():
            pop = mk_pop(k, inf)
            before = ([id(a) for a in pop], costs_of(pop))
            r = check_selection(pop, before, H.best_agents(pop, n, direction), n, direction, "best")
            if r is not OK:
                return r
            r = check_selection(pop, before, H.worst_agents(pop, n, direction), n, direction, "worst")
            if r is not OK:
                return r
            bi = H.best_agents_indexes(pop, n, direction)
            wi = H.worst_agents_indexes(pop, n, direction)
            for idx, which in ((bi, "best"), (wi, "worst")):
                if any((not isinstance(i, int)) or i < 0 or i >= k for i in idx):
                    return Failure(f"{which}_indexes:range", idx=list(idx))
                r = check_selection(pop, before, [pop[i] for i in idx], n, direction, which)
                if r is not OK:
                    return Failure(r.aspect.replace(":", "_indexes:"), **r.detail)
            if costs_of([pop[i] for i in bi]) != costs_of(H.best_agents(pop, n, direction)):
                return Failure("best_indexes:costs-differ")
            if costs_of([pop[i] for i in wi]) != costs_of(H.worst_agents(pop, n, direction)):
                return Failure("worst_indexes:costs-differ")
            bs, ws = H.special_agents(pop, n_best=n, n_worst=n, task_type=direction)
            if costs_of(bs) != costs_of(H.best_agents(pop, n, direction)) or \
                    costs_of(ws) != costs_of(H.worst_agents(pop, n, direction)):
                return Failure("special_agents:differs")
            return OK
    return f


def ob_single(k, dname, inf):
    direction = DIRS[dname]

    def f():
        with env():
            pop = mk_pop(k, inf)
            before = ([id(a) for a in pop], costs_of(pop))
            b, w = H.best_agent(pop, direction), H.worst_agent(pop, direction)
            for r in (check_selection(pop, before, [b], 1, direction, "best"),
                      check_selection(pop, before, [w], 1, direction, "worst")):
                if r is not OK:
                    return r
            bi, wi = H.best_agent_index(pop, direction), H.worst_agent_index(pop, direction)
            if pop[bi].cost != b.cost or pop[wi].cost != w.cost:
                return Failure("agent_index:cost-differs", bi=bi, wi=wi)
            # default direction is minimisation; only n_best / only n_worst
            bs, ws = H.special_agents(pop, n_best=1)
            if len(bs) != 1 or ws != [] or any(a.cost < bs[0].cost for a in pop):
                return Failure("special_agents:n_best-only")
            bs, ws = H.special_agents(pop, n_worst=1)
            if len(ws) != 1 or bs != [] or any(a.cost > ws[0].cost for a in pop):
                return Failure("special_agents:n_worst-only")
            try:
                H.special_agents(pop)
                return Failure("special_agents:no-count-accepted")
            except ValueError:
                pass
            return OK
    return f


def ob_sort(k, dname, inf):
    direction = DIRS[dname]

    def f():
        with env():
            pop = mk_pop(k, inf)
            before = ([id(a) for a in pop], costs_of(pop))
            s = H.sort_by_cost(pop, direction)
            if s is pop or sorted(id(a) for a in s) != sorted(before[0]):
                return Failure("sort_by_cost:not-a-permutation-copy")
            for a, b in zip(s, s[1:]):
                if better(b.cost, a.cost, direction):
                    return Failure("sort_by_cost:order", costs=costs_of(s))
            idx = H.sort_by_cost_indexes(pop, direction)
            if sorted(idx) != list(range(k)):
                return Failure("sort_by_cost_indexes:not-a-permutation", idx=list(idx))
            if costs_of([pop[i] for i in idx]) != costs_of(s):
                return Failure("sort_by_cost_indexes:costs-differ", idx=list(idx))
            if [id(a) for a in pop] != before[0]:
                return Failure("sort:caller-list-mutated")
            return OK
    return f


def ob_sort_and_trim(k, n, inf):
    def f():
        with env():
            pop = mk_pop(k, inf)
            before = ([id(a) for a in pop], costs_of(pop))
            got = H.sort_and_trim(pop, n)
            r = check_selection(pop, before, got, min(n, k), MIN, "best")
            if r is not OK:
                return Failure("sort_and_trim:" + r.aspect, **r.detail)
            return OK
    return f


def greedy_classes():
    out = [("base", None)]
    for n, o in sorted(vars(pyvolutionary).items()):
        if isinstance(o, type) and issubclass(o, A.OptimizationAbstract) and "_greedy_select_agent" in vars(o):
            out.append((n, o))
    return out


def sub_agent(acls, tag, cost):
    """an agent of the optimizer's own Agent subclass; extra numeric fields are solver variables"""
    extra = {}
    for name, f in acls.model_fields.items():
        if name in ("position", "cost", "fitness"):
            continue
        if f.annotation is float:
            extra[name] = sym.real(f"{tag}.{name}", lo=0.0, hi=3.0)
        elif f.annotation is int:
            extra[name] = sym.integer(f"{tag}.{name}", 0, 5)
        else:
            extra[name] = [0.0]
    return acls.model_construct(position=[tag], cost=cost, fitness=0.0, **extra)


def ob_greedy_agent(cname, cls):
    import typing

    def f():
        stream = stubs.Stream("np")
        with env(stubs.numpy_stream_layer(lambda: stream)):
            if cls is None:
                opt, acls = Scripted(config()), Agent
            else:
                opt = cls.__new__(cls)
                acls = typing.get_type_hints(cls._greedy_select_agent).get("agent", Agent)
            # every float kind, NaN included: "keeps the incumbent unless the challenger is strictly cheaper" is literal
            inc, ch = sub_agent(acls, "inc", sym.any_float("inc")), sub_agent(acls, "ch", sym.any_float("ch"))
            got = opt._greedy_select_agent(inc, ch)
            is_ch = got.position == ch.position
            is_inc = got.position == inc.position
            if not (is_ch or is_inc):
                return Failure("greedy_agent:result-is-neither")
            if not (ch.cost < inc.cost) and not is_inc:
                return Failure("greedy_agent:incumbent-lost", inc=inc.cost, ch=ch.cost)
            if cls is None and ch.cost < inc.cost and not (got is ch):
                return Failure("greedy_agent:challenger-cheaper-not-taken", inc=inc.cost, ch=ch.cost)
            if inc.position != ["inc"] or ch.position != ["ch"]:
                return Failure("greedy_agent:input-mutated")
            return OK
    return f


def ob_greedy_population(k, mode):
    def f():
        layers = [stubs.pool_layer()] if mode != "serial" else []
        with env(*layers):
            old = [agent(("o", i), sym.real(f"o{i}")) for i in range(k)]
            new = [agent(("n", i), sym.real(f"n{i}")) for i in range(k)]
            opt = Scripted(config(population_size=k))
            opt._population = list(old)
            opt._mode = ModeSolver(mode)
            old_ids = [id(a) for a in old]
            opt._greedy_select_population(list(new))
            res = opt._population
            if len(res) != k:
                return Failure("greedy_population:length", got=len(res))
            so = sorted(costs_of(old))
            sn = sorted(costs_of(new))
            # element-wise on cost-sorted populations: multiset of resulting costs == {min(so_i, sn_i)} and the
            # incumbent is kept on ties
            exp = [n if n < o else o for o, n in zip(so, sn)]
            if sorted(costs_of(res)) != sorted(exp):
                return Failure("greedy_population:elementwise", old=so, new=sn, got=sorted(costs_of(res)))
            n_new = sum(1 for a in res if a.position[0][0] == "n")
            if n_new != sum(1 for o, n in zip(so, sn) if n < o):
                return Failure("greedy_population:tie-takes-challenger", old=so, new=sn, tags=tags_of(res))
            if [id(a) for a in old] != old_ids:
                return Failure("greedy_population:caller-list-mutated")
            return OK
    return f


def ob_trim(k, j, ps, which):
    def f():
        with env():
            cur = [agent(("o", i), sym.real(f"o{i}")) for i in range(k)]
            new = [agent(("n", i), sym.real(f"n{i}")) for i in range(j)]
            opt = Scripted(config(population_size=ps))
            opt._population = list(cur)
            getattr(opt, which)(list(new))
            res = opt._population
            pool = (cur + new) if which == "_extend_and_trim_population" else new
            if which == "_extend_and_trim_population" and j == 0:
                exp_n = k
            else:
                exp_n = min(ps, len(pool))
            if len(res) != exp_n:
                return Failure(which + ":length", got=len(res), expected=exp_n)
            if which == "_extend_and_trim_population" and j == 0:
                return OK if [id(a) for a in res] == [id(a) for a in cur] else Failure(which + ":noop-changed")
            before = ([id(a) for a in pool], costs_of(pool))
            r = check_selection(pool, before, res, exp_n, MIN, "best")
            if r is not OK:
                return Failure(which + ":" + r.aspect, **r.detail)
            return OK
    return f


def twin_vacuity():
    """reachability witness: the same harness with a wrong oracle must be refuted"""
    def f():
        with env():
            pop = mk_pop(3, False)
            got = H.best_agents(pop, 1, MIN)
            return OK if got[0] is pop[0] else Failure("twin:first-is-not-always-best")
    return f


def obligations(tier):
    th = tier == "thorough"
    obs = []
    kfin = 6 if th else 4
    kinf = 4 if th else 3
    for inf, kmax in ((False, kfin), (True, kinf)):
        for k in range(1, kmax + 1):
            for d in ("min", "max"):
                t = 60 if k <= 4 else (200 if k == 5 else 900)
                for n in range(0, k + 1):
                    obs.append(Ob(f"best_worst[k={k},n={n},dir={d},inf={int(inf)}]", ob_best_worst(k, n, d, inf),
                                  timeout=t, desc="best/worst agents(+indexes), special_agents"))
                obs.append(Ob(f"single[k={k},dir={d},inf={int(inf)}]", ob_single(k, d, inf), timeout=t))
                obs.append(Ob(f"sort[k={k},dir={d},inf={int(inf)}]", ob_sort(k, d, inf), timeout=t))
            for n in range(0, k + 2):
                obs.append(Ob(f"sort_and_trim[k={k},n={n},inf={int(inf)}]", ob_sort_and_trim(k, n, inf),
                              timeout=60 if k <= 4 else 900))
    for cname, cls in greedy_classes():
        obs.append(Ob(f"greedy_agent[{cname}]", ob_greedy_agent(cname, cls), timeout=30))
    kg = 4 if th else 3
    for k in range(1, kg + 1):
        for mode in ("serial", "thread", "process"):
            if mode != "serial" and k > (3 if th else 2):
                continue
            obs.append(Ob(f"greedy_population[k={k},mode={mode}]", ob_greedy_population(k, mode),
                          timeout=120 if k <= 3 else 900))
    for k in range(0, kg):
        for j in range(0, kg):
            if k + j > (5 if th else 4):
                continue
            for ps in sorted({1, max(1, k), k + 1}):
                obs.append(Ob(f"extend_trim[k={k},j={j},ps={ps}]", ob_trim(k, j, ps, "_extend_and_trim_population"),
                              timeout=120))
                if j > 0:
                    obs.append(Ob(f"replace_trim[k={k},j={j},ps={ps}]",
                                  ob_trim(k, j, ps, "_replace_and_trim_population"), timeout=120))
    obs.append(Ob("twin_vacuity", twin_vacuity(), timeout=30, expect_refuted=True))
    return obs
