"""C12 - maximising f is exactly minimising -f."""
from .common import *          # noqa
from .funnel import Funnel

META = {
    "explanation": "Self-composition on the shared code: two executions inside one symbolic path, run A on (MAX, F) and "
                   "run B on (MIN, -F), share the candidate / random-stream variables and the uninterpreted objective "
                   "values F. Checked: the real _init_agent yields equal positions and equal internal costs; Population "
                   "and OptimizationResult report exact negatives; the real optimize() with scripted update rules whose "
                   "decisions use only internal costs and positions (greedy replacement, merge-sort-trim, best/worst "
                   "tracking through special_agents) visits the same positions generation by generation with negated "
                   "costs, stopping by cycle count; multi-objective (weights) included.",
    "bounds": {"quick": "optimize(): (agents,cycles) in {(2,1),(1,2)}; _init_agent: objectives k<=2", "thorough": "+ (2,2),(3,1),(1,3)"},
    "outside": "update rules that read Agent.fitness or Task.minmax (H5; the property itself excludes them)",
    "stubs": ["np.random.* symbolic stream shared by both runs (same seed)", "pydantic-lite", "np.dot/clip pure-Python"],
    "assumptions": ["finite floats as reals; negation is exact in IEEE as well"],
}

from engine import monitor as _monitor          # noqa: E402
META["audit"] = lambda: _monitor.audit(('H5',))


def same_float(a, b):
    """equality that treats two NaN as equal (a NaN objective mirrors as NaN)"""
    return (a != a and b != b) or a == b


def ob_init_agent(names, n_obj, f_kind="real", as_list=False):
    def f():
        with env():
            vs_a, vs_b = build_vars(names), build_vars(names)
            decls = leaf_decls(vs_a)
            F = [{"real": sym.real, "any": sym.any_float}[f_kind](f"F{j}") for j in range(n_obj)]
            multi = n_obj > 1 or as_list          # as_list: a one-element objective list with one weight
            w = [sym.real(f"w{j}", lo=0.0) for j in range(n_obj)] if multi else None
            fa = (lambda x, i: list(F)) if multi else (lambda x, i: F[0])
            fb = (lambda x, i: [-v for v in F]) if multi else (lambda x, i: -F[0])
            ta = make_task(vs_a, fa, minmax=MAX, weights=w)
            tb = make_task(vs_b, fb, minmax=MIN, weights=w)
            x = sym_candidate(decls)
            oa, ob = Scripted(config()), Scripted(config())
            oa._task, ob._task = ta, tb
            a, b = oa._init_agent(list(x)), ob._init_agent(list(x))
            if a.position != b.position:
                return Failure("positions-differ", a=a.position, b=b.position)
            if not same_float(a.cost, b.cost):
                return Failure("internal-costs-differ", a=a.cost, b=b.cost)
            ra = M.Population(agents=[a], task_type=MAX).agents[0].cost
            rb = M.Population(agents=[b], task_type=MIN).agents[0].cost
            if not same_float(ra, -rb):
                return Failure("reported-costs-are-not-exact-negatives", max=ra, min=rb)
            return OK
    return f


def ob_optimize(rule, n, cycles):
    def f():
        results = []
        F = {}
        cands = {}
        for minmax in (MAX, MIN):
            st = stubs.Stream("np")          # same tag: both runs share the stream variables (same seed)
            with env(stubs.numpy_stream_layer(lambda: st)):
                def obj(x, i, minmax=minmax):
                    if i not in F:
                        F[i] = sym.real(f"F{i}")
                    return F[i] if minmax == MAX else -F[i]

                def step(o, c):
                    new = []
                    for j in range(n):
                        if (c, j) not in cands:
                            cands[(c, j)] = sym.real(f"x{c}.{j}", lo=-1.0, hi=2.0)          # in bounds: clipping is not the subject
                        new.append(o._init_agent([cands[(c, j)]]))
                    if rule == "greedy":
                        o._greedy_select_population(new)
                    elif rule == "extend_trim":
                        o._extend_and_trim_population(new)
                    else:          # move towards the tracked best / away from the tracked worst agent
                        o._population = [o._greedy_select_agent(o._worst_agent, new[0])] + \
                                        [o._best_agent.model_copy() for _ in range(n - 1)]
                opt = Scripted(M.BaseOptimizationConfig(population_size=n, fitness_error=None, max_cycles=cycles),
                               step=step)
                results.append(opt.optimize(make_task([cont()], obj, minmax=minmax)))
        ra, rb = results
        if len(ra.evolution) != len(rb.evolution):
            return Failure("different-number-of-generations")
        for g, (ga, gb) in enumerate(zip(ra.evolution, rb.evolution)):
            if [a.position for a in ga.agents] != [a.position for a in gb.agents]:
                return Failure("positions-differ", generation=g, max=[a.position for a in ga.agents],
                               min=[a.position for a in gb.agents])
            if [a.cost for a in ga.agents] != [-a.cost for a in gb.agents]:
                return Failure("costs-are-not-exact-negatives", generation=g, max=costs_of(ga.agents),
                               min=costs_of(gb.agents))
        if ra.best_solution.position != rb.best_solution.position or ra.best_solution.cost != -rb.best_solution.cost:
            return Failure("best_solution-differs")
        return OK
    return f


def ob_no_direction_leak():
    """no base-class call passes a non-default direction to a selection helper: best/worst tracking of a MAX task is
    done on internal costs (the best agent has the highest user cost)"""
    def f():
        with env(allow_seed=True):
            gen = [agent(i, sym.real(f"c{i}"), 0.5) for i in range(3)]
            opt = Scripted(M.BaseOptimizationConfig(population_size=3, fitness_error=None, max_cycles=1),
                           init=lambda o: list(gen))
            opt.optimize(make_task([cont()], lambda x, i: 0.0, minmax=MAX))
            if any(a.cost < opt._best_agent.cost for a in gen) or any(a.cost > opt._worst_agent.cost for a in gen):
                return Failure("best/worst-tracking-is-not-on-internal-costs")
            return OK
    return f


def twin():
    def f():
        with env():
            t = make_task([cont()], lambda x, i: sym.real("F"), minmax=MAX)
            o = Scripted(config())
            o._task = t
            a = o._init_agent([sym.real("x")])
            return OK if M.Population(agents=[a], task_type=MAX).agents[0].cost == a.cost else \
                Failure("twin:reported-cost-differs-from-internal-for-max")
    return f


def obligations(tier):
    th = tier == "thorough"
    obs = []
    for names in (("C",), ("C", "D3"), ("P3",)):
        for k in (1, 2):
            obs.append(Ob(f"init_agent[{'+'.join(names)},k={k}]", ob_init_agent(names, k), 300))
    obs.append(Ob("init_agent[C,k=1,one-element-list]", ob_init_agent(("C",), 1, as_list=True), 300))
    obs.append(Ob("init_agent[C+D3,k=3]", ob_init_agent(("C", "D3"), 3), 300))
    # objective values of every float kind: finite, +inf, -inf, NaN (sqrt / log outside their domain)
    obs.append(Ob("init_agent[C,k=1,any-objective-value]", ob_init_agent(("C",), 1, "any"), 300))
    for rule in ("greedy", "extend_trim", "tracked"):
        for n, cycles in ((2, 1), (1, 2)) + (((2, 2), (3, 1), (1, 3)) if th else ()):
            if rule == "tracked" and n == 1:
                continue
            obs.append(Ob(f"optimize[{rule},n={n},cycles={cycles}]", ob_optimize(rule, n, cycles),
                          3000 if (n, cycles) in ((2, 2), (3, 1)) else 600))
    obs.append(Ob("no_direction_leak", ob_no_direction_leak(), 120))
    obs.append(Ob("twin_vacuity", twin(), 30, expect_refuted=True))
    return obs
