"""C01 - every reported solution lies inside the declared search space."""
from .common import *          # noqa
from .funnel import Funnel, init_agent_overrides
from .C14 import var_lists

META = {
    "explanation": "(a) Variable.correct of each leaf type maps every finite / +inf / -inf candidate to a member; "
                   "(b,c) the real _init_agent (also with an objective that edits its argument in place) (base class and the 19 overrides, objective uninterpreted) returns an "
                   "agent whose position is a member with exactly one coordinate per declared scalar variable, for "
                   "every variable list within the bound and candidates of length >= dimension; (d) Population / "
                   "OptimizationResult packaging keeps positions; (e) through the real optimize() with a scripted "
                   "optimizer that creates agents only through _init_agent (random initial population from the RNG "
                   "model, symbolic candidates afterwards, greedy selection, serial and pooled), every recorded "
                   "agent and best_solution is a member. Membership oracle written from the declarations.",
    "bounds": {"quick": "single variables with +-inf kinds; ordered pairs with dimension<=3, finite candidates; "
                        "optimize(): 2 agents, 2 cycles",
               "thorough": "pairs with dimension<=4 (+-inf kinds up to dimension 2); triples dimension<=4; optimize(): "
                           "3 agents"},
    "outside": "that the 84 update rules create agents only through _init_agent (H1) - trajectories of the real "
               "optimizers are not explored; NaN candidates are C05's subject",
    "stubs": ["np.clip/np.argsort pure-Python on symbolic values", "np.random.* -> symbolic stream",
              "pools -> in-process pool with solver-chosen completion order", "pydantic-lite"],
    "assumptions": ["finite floats as reals (correction compares / truncates only)"],
}

from engine import monitor as _monitor          # noqa: E402
META["audit"] = lambda: _monitor.audit(('H1',))


def ob_leaf(vname):
    def f():
        with env():
            v = build_vars((vname,), symbolic_bounds=True)[0]
            d = leaf_decls([v])[0]
            x = sym_candidate([d], kind="ext")[0]
            y = v.correct(x)
            return OK if member(y, d) else Failure("correct:not-a-member", x=x, y=y)
    return f


def ob_funnel(names, cname, kind, extra=0, dname="min", mutate=False):
    def f():
        with env(rng_deny=(cname == "base")):
            fu = Funnel(names, cname, DIRS[dname], 1, kind=kind, extra_coords=extra, mutate=mutate)
            a = fu.run()
            if len(a.position) != len(fu.decls):
                return Failure("position:wrong-number-of-coordinates", x=fu.x, position=a.position)
            if not in_space(a.position, fu.decls):
                return Failure("position:not-a-member", x=fu.x, position=a.position)
            for p in (M.Population(agents=[a], task_type=fu.minmax).agents[0],
                      M.OptimizationResult(evolution=[], rates=[], best_solution=a, task_type=fu.minmax).best_solution):
                if p.position != a.position:
                    return Failure("packaging:position-altered", position=a.position, packaged=p.position)
            return OK
    return f


def ob_low_precision():
    """numpy scalars of lower precision beyond a bound not representable in that precision (see funnel.low_precision_cases)"""
    def f():
        from .funnel import low_precision_cases
        n = 0
        for label, decls, opt, task, x in low_precision_cases():
            a = opt._init_agent(list(x))
            n += 1
            if len(a.position) != len(decls) or not in_space(a.position, decls):
                return Failure("position:not-a-member:low-precision-candidate", case=label, position=repr(a.position))
        return OK if n else Failure("low-precision:no-case-ran")
    return f


def ob_optimize(names, mode, n_agents, cycles, dname, mutate=False):
    def f():
        st = stubs.Stream("np")
        layers = [stubs.numpy_stream_layer(lambda: st)] + ([stubs.pool_layer()] if mode != "serial" else [])
        with env(*layers):
            vs = build_vars(names)
            decls = leaf_decls(vs)
            # membership does not depend on the costs: concrete, pairwise different values keep the sorts fork-free
            t = make_task(vs, lambda x, i: float((i * 7) % 11), minmax=DIRS[dname], mutate=mutate)

            def step(o, k):
                new = [o._init_agent(sym_candidate(decls, prefix=f"c{k}.{j}.")) for j in range(n_agents)]
                o._greedy_select_population(new)
            opt = Scripted(M.BaseOptimizationConfig(population_size=n_agents, fitness_error=None, max_cycles=cycles),
                           step=step)
            res = opt.optimize(t, mode=mode, workers=2)
            for g, gen in enumerate(res.evolution):
                for a in gen.agents:
                    if not in_space(a.position, decls):
                        return Failure("recorded-position:not-a-member", generation=g, position=a.position)
            if not in_space(res.best_solution.position, decls):
                return Failure("best_solution:not-a-member", position=res.best_solution.position)
            return OK
    return f


def twin():
    def f():
        with env():
            fu = Funnel(("C",), "base", MIN, 1)
            a = fu.run()
            return OK if a.position == fu.x else Failure("twin:position-is-not-always-the-candidate")
    return f


def obligations(tier):
    th = tier == "thorough"
    obs = []
    for v in ("C", "D3", "P3", "P4"):
        obs.append(Ob(f"leaf[{v}]", ob_leaf(v), 120))
    for names in var_lists(tier):
        d = flat_size(names)
        perm = sum(VARIANTS[n][1] if not n.startswith("P") else int(n[1:]) for n in names)
        kind = "ext" if (len(names) == 1 and perm <= 3) or (th and perm <= 2) else "real"
        if len(names) == 3 and d > 3:
            continue
        obs.append(Ob(f"funnel[{'+'.join(names)},{kind}]", ob_funnel(names, "base", kind), 300 if d <= 3 else 900))
    for names in (("D3",), ("DM2",), ("B2",), ("C", "D3"), ("DM1", "B1"), ("C",)):
        obs.append(Ob(f"funnel[{'+'.join(names)},int]", ob_funnel(names, "base", "int"), 300))
    obs.append(Ob("funnel_extra_coords[C+D3]", ob_funnel(("C", "D3"), "base", "real", extra=2), 120))
    obs.append(Ob("funnel_max[C+D3]", ob_funnel(("C", "D3"), "base", "ext", dname="max"), 120))
    # the objective is arbitrary user code and may edit its argument in place: reported positions must not alias it
    for names in (("C", "D3"), ("P3",), ("CM2",)):
        obs.append(Ob(f"funnel_mutating_objective[{'+'.join(names)}]", ob_funnel(names, "base", "real", mutate=True), 120))
    obs.append(Ob("optimize_mutating_objective[C,serial]", ob_optimize(("C",), "serial", 2, 1, "min", mutate=True), 300))
    for cname in init_agent_overrides():
        obs.append(Ob(f"override[{cname}]", ob_funnel(("C", "D3"), cname, "ext"), 300))
    for names in (("C",), ("D3", "C")) + ((("P3",), ("B2",)) if th else ()):
        for mode in ("serial", "thread"):
            n = 3 if th and mode == "serial" and names == ("C",) else 2
            cycles = 2 if names == ("C",) else 1          # (permutation agents: 6 stream orders + 6 key orders each)
            if mode == "thread" and flat_size(names) > 1 and not th:
                continue
            obs.append(Ob(f"optimize[{'+'.join(names)},{mode},n={n},cycles={cycles}]",
                          ob_optimize(names, mode, n, cycles, "min"), 900))
    obs.append(Ob("optimize[C,serial,max]", ob_optimize(("C",), "serial", 2, 1, "max"), 300))
    obs.append(Ob("low_precision_candidates", ob_low_precision(), 60))
    obs.append(Ob("twin_vacuity", twin(), 30, expect_refuted=True))
    return obs
