"""C10 - the population size is conserved across generations."""
from .common import *          # noqa
import numpy as np

META = {
    "explanation": "Real _generate_agents(n) / _init_population in serial, thread and process mode (pool model, every "
                   "completion order) return exactly n agents; _greedy_select_population keeps the length (serial and "
                   "pooled); _extend_and_trim / _replace_and_trim / sort_and_trim return min(available, population_size) "
                   "agents; _generate_group_population(g, P//g) partitions the population (disjoint groups + residual "
                   "whose union is the population) for every P<=8 and g<=P; through the real optimize() with scripted "
                   "size-preserving rules every recorded generation has exactly population_size agents (never empty, "
                   "never larger) and has the length of the live population. Bug hunting inside the 81 fixed-size update "
                   "rules (refutation-only, group class_step): the class's float configuration fields are solver variables "
                   "constrained only by the class's validators, population_size is small and concrete, the real optimize() "
                   "runs two cycles on a concrete task with the real generator; counts derived from the configuration "
                   "(int(rate * population_size), slices, ranges) are then symbolic; a candidate is reported only if the "
                   "same obligation replayed on the real pydantic / numpy confirms it.",
    "bounds": {"quick": "n<=3 agents (pooled: all completion orders), P<=8 groups, 2 cycles; class_step: population 5, "
                        "2 cycles, 45 s per class",
               "thorough": "n<=4 agents, 3 cycles; class_step: populations 5 and 8, 120 s per class"},
    "outside": "list surgery inside the 84 update rules (H7) beyond what class_step reaches: class_step is refutation-only "
               "(inconclusive wherever symbolic floats meet numpy mathematics; integer configuration fields and the task "
               "stay at the test-suite values); the three variable-size optimizers (Bee Colony, Forest, "
               "Imperialist Competitive) are excluded by the property itself",
    "stubs": ["np.random.* symbolic stream", "pool model", "pydantic-lite"],
    "assumptions": ["finite floats as reals"],
}

from engine import monitor as _monitor          # noqa: E402
META["audit"] = lambda: _monitor.audit(('H7',))


def ob_generate(n, mode):
    def f():
        st = stubs.Stream("np")
        with env(stubs.numpy_stream_layer(lambda: st), stubs.pool_layer()):
            t = make_task([cont()], lambda x, i: float(i))
            o = Scripted(M.BaseOptimizationConfig(population_size=n, fitness_error=None, max_cycles=1))
            o._task, o._mode, o._workers = t, ModeSolver(mode), 2
            got = o._generate_agents(n)
            if len(got) != n:
                return Failure("_generate_agents:length", n=n, got=len(got))
            if sorted(a.cost for a in got) != [float(i) for i in range(n)]:
                return Failure("_generate_agents:lost-or-duplicated-evaluation", costs=costs_of(got))
            o._init_population()
            if len(o._population) != n:
                return Failure("_init_population:length", n=n, got=len(o._population))
            return OK
    return f


def ob_generate_workers(mode, nmax, wmax):
    """every (number of agents, worker count) pair: n and workers are solver variables (enumerated by realisation)"""
    def f():
        st = stubs.Stream("np")
        with env(stubs.numpy_stream_layer(lambda: st), stubs.pool_layer(order="submission")):
            n = sym.integer("n_agents", 1, nmax)
            w = sym.integer("workers", 1, wmax)
            t = make_task([cont()], lambda x, i: float(i))
            o = Scripted(M.BaseOptimizationConfig(population_size=int(n), fitness_error=None, max_cycles=1))
            res = o.optimize(t, mode=mode, workers=int(w))
            sizes = [len(g.agents) for g in res.evolution]
            if any(s != n for s in sizes):
                return Failure("generation-size-is-not-population_size", sizes=sizes, population_size=n, workers=w, mode=mode)
            if len(t.data["log"]) != n:
                return Failure("number-of-evaluations-differs-from-population_size", evaluations=len(t.data["log"]),
                               population_size=n, workers=w)
            return OK
    return f


def ob_greedy_len(k, mode):
    def f():
        layers = [stubs.pool_layer()] if mode != "serial" else []
        with env(*layers):
            o = Scripted(config(population_size=k))
            o._mode = ModeSolver(mode)
            o._population = [agent(("o", i), sym.real(f"o{i}")) for i in range(k)]
            o._greedy_select_population([agent(("n", i), sym.real(f"n{i}")) for i in range(k)])
            return OK if len(o._population) == k else Failure("_greedy_select_population:length", got=len(o._population))
    return f


def ob_trim_len(kmax, jmax, psmax):
    """lengths after the trim helpers for every (current size k, candidates j, population_size ps): the three sizes are
    solver variables (enumerated by realisation); costs are concrete - a length does not depend on them"""
    def f():
        with env():
            k, j, ps = sym.integer("k", 0, kmax), sym.integer("j", 0, jmax), sym.integer("ps", 1, psmax)
            mk = lambda tag, n: [agent((tag, i), float((i * 7 + len(tag)) % 5)) for i in range(n)]          # noqa: E731
            o = Scripted(config(population_size=ps))
            o._population = mk("o", k)
            o._extend_and_trim_population(mk("n", j))
            exp = k if j == 0 else min(ps, k + j)
            if len(o._population) != exp:
                return Failure("_extend_and_trim_population:length", got=len(o._population), expected=exp, k=k, j=j, ps=ps)
            o._replace_and_trim_population(mk("r", j))
            if len(o._population) != min(ps, j):
                return Failure("_replace_and_trim_population:length", got=len(o._population), expected=min(ps, j),
                               j=j, ps=ps)
            got = H.sort_and_trim(mk("s", k), ps)
            if len(got) != min(ps, k):
                return Failure("sort_and_trim:length", got=len(got), expected=min(ps, k), k=k, ps=ps)
            return OK
    return f


def ob_groups(P):
    """n_groups groups of n_agents agents each plus the residual agents partition the population, for every
    (n_groups, n_agents) with n_groups * n_agents <= P - both calling conventions used by the algorithms:
    (g, P // g) (Elephant Herd) and (P // k, k) (Coyotes)"""
    def f():
        with env():
            g = sym.integer("n_groups", 1, P)
            k = sym.integer("n_agents", 1, P)
            sym.assume(g * k <= P)
            o = Scripted(config(population_size=P))
            o._population = [agent(i, float(i)) for i in range(P)]
            groups = o._generate_group_population(g, k)
            tags = [a.position[0] for grp in groups for a in grp]
            if sorted(tags) != list(range(P)):
                return Failure("groups-do-not-partition-the-population", P=P, n_groups=g, n_agents=k, tags=tags)
            if any(len(grp) == 0 for grp in groups):
                return Failure("empty-group", P=P, n_groups=g, n_agents=k)
            if any(len(grp) != k for grp in groups[:g]):
                return Failure("group-size", P=P, n_groups=g, n_agents=k)
            nores = o._generate_group_population(g, k, with_residual=False)
            if len(nores) != g or any(len(grp) != k for grp in nores):
                return Failure("groups-without-residual:shape", P=P, n_groups=g, n_agents=k)
            return OK
    return f


def ob_optimize(rule, n, cycles, mode):
    def f():
        st = stubs.Stream("np")
        layers = [stubs.numpy_stream_layer(lambda: st)] + ([stubs.pool_layer()] if mode != "serial" else [])
        with env(*layers):
            lives = []

            def step(o, c):
                lives.append(len(o._population))
                new = [o._init_agent([sym.real(f"x{c}.{j}")]) for j in range(n)]
                if rule == "greedy":
                    o._greedy_select_population(new)
                elif rule == "extend_trim":
                    o._extend_and_trim_population(new)
                else:
                    o._replace_and_trim_population(new + o._population)
            opt = Scripted(M.BaseOptimizationConfig(population_size=n, fitness_error=None, max_cycles=cycles), step=step)
            t = make_task([cont()], lambda x, i: float((i * 7) % 11))
            res = opt.optimize(t, mode=mode, workers=2)
            lives.append(len(opt._population))
            sizes = [len(g.agents) for g in res.evolution]
            if sizes != lives:
                return Failure("recorded-generation-length-differs-from-live-population", sizes=sizes, live=lives)
            if any(s != n for s in sizes):
                return Failure("generation-size-is-not-population_size", sizes=sizes, population_size=n)
            return OK
    return f


VARIABLE_SIZE = ("BeeColonyOptimization", "ForestOptimizationAlgorithm", "ImperialistCompetitiveOptimization")


class _Sphere(M.Task):
    def objective_function(self, x):
        return float(sum(v * v for v in x))


def ob_class_step(cname, pop):
    """bug hunting inside one update rule (H7): the class's float configuration fields become solver variables (the
    class's own validators are the only constraint), population_size is the given small value, and the real optimize()
    runs two cycles on a concrete task with the real generator. Counts derived from the configuration
    (int(rate * population_size), slices, ranges) are then symbolic. The same obligation replayed on the real pydantic /
    numpy decides (api_replay_decides); where symbolic floats meet numpy mathematics the exploration is inconclusive."""
    from .funnel import optimizer_classes, config_class, test_config
    cls = optimizer_classes()[cname]

    def f():
        with env(rng_deny=False):
            C = config_class(cls)
            kw = dict(test_config(cls))
            kw.update(population_size=pop, max_cycles=2, fitness_error=None)
            kw.pop("early_stopping", None)
            for k, v in list(kw.items()):
                if type(v) is float:
                    kw[k] = sym.real(f"cfg.{k}")
            try:
                cfg = C(**kw)
            except Exception:
                return OK          # not a valid configuration
            o = cls(cfg)
            task = _Sphere(variables=[M.ContinuousMultiVariable(name="x", lower_bounds=[-2.0, -2.0], upper_bounds=[2.0, 2.0])],
                           seed=5)
            np.random.seed(5)
            started = []
            real_after = o.after_initialization
            o.after_initialization = lambda: (started.append(1), real_after())[1]
            try:
                res = o.optimize(task)
            except (sym.Inconclusive, sym.ReplayMismatch):
                raise
            except Exception as e:
                n = len(o._population) if isinstance(o._population, list) else -1
                if started and n != pop:          # (a configuration rejected before the population exists is C06's subject)
                    return Failure("class-step:live-population-size-changed", cls=cname, population_size=pop, live=n,
                                   raised=type(e).__name__)
                return OK          # (an exception with an intact population is not this property's subject)
            sizes = [len(g.agents) for g in res.evolution]
            if any(n != pop for n in sizes):
                return Failure("class-step:generation-size-differs-from-population_size", cls=cname, population_size=pop,
                               sizes=sizes)
            return OK
    return f


def twin():
    def f():
        with env():
            o = Scripted(config(population_size=2))
            o._population = [agent(i, sym.real(f"c{i}")) for i in range(3)]
            o._extend_and_trim_population([agent(9, sym.real("n"))])
            return OK if len(o._population) == 4 else Failure("twin:trim-does-trim")
    return f


def obligations(tier):
    th = tier == "thorough"
    obs = []
    N = 4 if th else 3
    for n in range(1, N + 1):
        for mode in ("serial", "thread", "process"):
            obs.append(Ob(f"generate[n={n},{mode}]", ob_generate(n, mode), 600))
            if n >= 2 and (n <= 3 or mode == "serial"):
                obs.append(Ob(f"greedy_len[k={n},{mode}]", ob_greedy_len(n, mode), 900))
    for mode in ("thread", "process"):
        obs.append(Ob(f"generate_workers[{mode}]", ob_generate_workers(mode, 12 if th else 8, 6 if th else 5), 900))
    obs.append(Ob("trim_len", ob_trim_len(5 if th else 4, 5 if th else 4, 6 if th else 5), 900))
    for P in range(1, 9):
        obs.append(Ob(f"groups[P={P}]", ob_groups(P), 120))
    for rule in ("greedy", "extend_trim", "replace_trim"):
        for mode in ("serial", "thread"):
            if mode == "thread" and rule != "greedy":
                continue
            obs.append(Ob(f"optimize[{rule},n=2,cycles={3 if th and mode == 'serial' else 2},{mode}]",
                          ob_optimize(rule, 2, 3 if th and mode == "serial" else 2, mode), 900))
    from .funnel import optimizer_classes
    for cname in optimizer_classes():
        if cname in VARIABLE_SIZE:
            continue
        for pop in (5, 8) if th else (5,):
            obs.append(Ob(f"class_step[{cname},pop={pop}]", ob_class_step(cname, pop), 120 if th else 45, group="class_step",
                          refutation_only=True, api_replay_decides=True, tolerate_errors=True))
    obs.append(Ob("twin_vacuity", twin(), 30, expect_refuted=True))
    return obs
