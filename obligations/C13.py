"""C13 - variable types obey their domain laws."""
from .common import *          # noqa
import numpy as np

META = {
    "explanation": "For each of the 7 variable types the real constructor (with the repository's own validators), "
                   "randomize, correct, decode, size and get_bounds are executed on symbolic declarations (bounds) and "
                   "symbolic finite inputs. Oracles: membership predicate written from the declaration; correct fixes "
                   "members and is idempotent; decode(correct(x)) is a declared choice / a rearrangement L[y[i]] for a "
                   "value-independent labelling L; constructors reject exactly the invalid declarations.",
    "bounds": {"quick": "choices 1..4, permutation items 1..4, multi sizes 1..3, n_vars in [-2,3]",
               "thorough": "choices 1..6, permutation items 1..5, multi sizes 1..4"},
    "outside": "NaN / infinite inputs (C01/C05 cover +-inf and NaN at the funnel); unhashable or duplicate items; float "
               "rounding of lb+(ub-lb)*u in randomize (reals)",
    "stubs": ["np.clip/np.argsort/np.any/np.array pure-Python on symbolic values", "np.random.* -> symbolic stream",
              "pydantic-lite constructor (repository validators run unchanged)"],
    "assumptions": ["finite floats as reals; clip/argsort only compare", "np.random.uniform(lo,hi) in [lo,hi), "
                    "choice(range(n)) in range(n), permutation(range(n)) a permutation (contract spot-checked)"],
}


def rng_layer():
    st = stubs.Stream("np")
    return stubs.numpy_stream_layer(lambda: st)


def ob_continuous():
    def f():
        with env(rng_layer()):
            lo, hi = sym.real("lb"), sym.real("ub")
            try:
                v = M.ContinuousVariable(name="c", lower_bound=lo, upper_bound=hi)
                if not lo < hi:
                    return Failure("continuous:invalid-bounds-accepted", lb=lo, ub=hi)
            except ValueError:
                return OK if not lo < hi else Failure("continuous:valid-bounds-rejected", lb=lo, ub=hi)
            x = sym.real("x")
            y = v.correct(x)
            d = ("cont", lo, hi)
            if not member(y, d):
                return Failure("continuous:correct-not-member", x=x, y=y)
            if lo <= x <= hi and y != x:
                return Failure("continuous:member-changed", x=x, y=y)
            if v.correct(y) != y:
                return Failure("continuous:not-idempotent", x=x, y=y)
            if v.decode(y) != y:
                return Failure("continuous:decode", y=y)
            r = v.randomize()
            if not member(r, d):
                return Failure("continuous:randomize-not-member", r=r)
            if v.size() != 1 or v.has_children() or tuple(v.get_bounds()) != (lo, hi):
                return Failure("continuous:shape")
            return OK
    return f


def ob_continuous_concrete():
    """numpy scalars and ints as inputs: results are plain floats in the domain"""
    def f():
        v = M.ContinuousVariable(name="c", lower_bound=-1.5, upper_bound=2.0)
        for x in (np.float64(0.25), np.float32(3.5), np.int64(-7), 1, 2.0, -1.5, float("inf"), float("-inf")):
            y = v.correct(x)
            if type(y) is not float or not (-1.5 <= y <= 2.0):
                return Failure("continuous:concrete", x=repr(x), y=repr(y))
            if -1.5 <= x <= 2.0 and y != x:
                return Failure("continuous:concrete-member-changed", x=repr(x), y=repr(y))
        return OK
    return f


def ob_continuous_low_precision():
    """numpy scalars of lower precision (float32 / float16) beyond a bound that is not representable in that precision:
    np.clip works in the scalar's precision and returns the rounded bound - the result must still be a member, and
    correcting it again must not move it"""
    def f():
        for lo, hi in ((0.0, 0.1), (-0.3, 1 / 3), (0.1, 0.7)):
            v = M.ContinuousVariable(name="c", lower_bound=lo, upper_bound=hi)
            for x in (np.float32(5.0), np.float32(-5.0), np.float16(5.0), np.float16(-5.0), np.float32(0.05), np.float32(hi),
                      np.float32(lo), np.array(5.0, dtype=np.float32), np.array(-5.0, dtype=np.float16),
                      10 ** 400, -10 ** 400, np.int8(-100), np.uint8(200), True):          # (ints beyond the float range are finite too)
                y = v.correct(x)
                if type(y) is not float or not (lo <= y <= hi):
                    return Failure("continuous:low-precision-input-not-mapped-into-the-domain", x=repr(x), y=repr(y),
                                   bounds=[lo, hi])
                if v.correct(y) != y:
                    return Failure("continuous:not-idempotent-on-low-precision-input", x=repr(x), y=repr(y))
        d = M.DiscreteVariable(name="d", choices=list(range(2999)))          # 2998 is not a float16
        for x in (np.float16(5e4), np.float16(-5e4), np.float32(1e9), 10 ** 400, -10 ** 400, np.uint8(200), np.float16(7.9)):
            y = d.correct(x)
            if type(y) is not int or not (0 <= y <= 2998) or d.correct(y) != y:
                return Failure("discrete:low-precision-or-huge-input-not-mapped-into-the-domain", x=repr(x), y=repr(y))
        return OK
    return f


def ob_discrete(n):
    def f():
        with env(rng_layer()):
            choices = [f"ch{i}" for i in range(n)]
            v = M.DiscreteVariable(name="d", choices=list(choices))
            d = ("disc", n)
            x = sym.real("x")
            y = v.correct(x)
            if not member(y, d):
                return Failure("discrete:correct-not-member", x=x, y=y)
            if v.correct(y) != y:
                return Failure("discrete:not-idempotent", x=x, y=y)
            if v.decode(y) != choices[y] or v.decode(y) not in choices:
                return Failure("discrete:decode-not-declared", y=y)
            m = sym.integer("m", 0, n - 1)
            if v.correct(m) != m:
                return Failure("discrete:member-changed", m=m, got=v.correct(m))
            mf = float(m)
            if v.correct(mf) != m:
                return Failure("discrete:float-member-changed", m=m)
            r = v.randomize()
            if not member(r, d):
                return Failure("discrete:randomize-not-member", r=r)
            if v.size() != 1 or v.has_children() or tuple(v.get_bounds()) != (0, n - 1):
                return Failure("discrete:shape")
            return OK
    return f


def ob_multi_concrete():
    """huge / tiny finite values and numpy scalars through the multi-variables (finite inputs must be mapped into the
    domain, not rejected with OverflowError)"""
    def f():
        dm = M.DiscreteMultiVariable(name="dm", choices=[[1, 2], ["a", "b", "c"]])
        bv = M.BinaryVariable(name="b", n_vars=2)
        cm = M.ContinuousMultiVariable(name="cm", lower_bounds=[-1.0, 0.0], upper_bounds=[1.0, 5.0])
        for vec in ([1e19, -1e300], [1e300, 2.5], (np.float64(1.7), np.int64(-3)), [0.999999, 1e18], [-0.0, 1e-320],
                    np.array([3.5, -2.0])):
            for v, decls in ((dm, [("disc", 2), ("disc", 3)]), (bv, [("disc", 2), ("disc", 2)]),
                             (cm, [("cont", -1.0, 1.0), ("cont", 0.0, 5.0)])):
                try:
                    y = v.correct(vec)
                except Exception as e:
                    return Failure("multi:finite-input-rejected", variable=v.name, value=repr(vec),
                                   error=f"{type(e).__name__}: {str(e)[:120]}")
                if len(y) != 2 or not all(member(c, d) for c, d in zip(y, decls)):
                    return Failure("multi:concrete-not-member", variable=v.name, value=repr(vec), got=repr(y))
        return OK
    return f


def ob_discrete_concrete():
    def f():
        v = M.DiscreteVariable(name="d", choices=[10, "b", 3.5])
        for x in (np.float64(1.7), np.int64(2), np.float32(-3), 5, 0.999, 2, float("inf"), float("-inf")):
            y = v.correct(x)
            if type(y) is not int or not 0 <= y <= 2:
                return Failure("discrete:concrete", x=repr(x), y=repr(y))
            if v.decode(y) not in [10, "b", 3.5]:
                return Failure("discrete:concrete-decode", y=y)
        return OK
    return f


ITEMS = {1: ["solo"], 2: ["b", "a"], 3: ["p", "q", "r"], 4: [4, "x", 2.5, "a"], 5: ["e", "d", "c", "b", "a"]}


def perm_laws(v, n, x, items):
    d = ("perm", n)
    y = v.correct(x)
    if not member(y, d):
        return Failure("permutation:correct-not-member", x=x, y=y)
    yy = v.correct(y)
    if list(yy) != list(y):
        return Failure("permutation:not-idempotent", x=x, y=y, yy=yy)
    L = v.decode(list(range(n)))
    if sorted(map(repr, L)) != sorted(map(repr, items)):
        return Failure("permutation:decode-identity-not-a-rearrangement", L=L)
    dec = v.decode(y)
    if sorted(map(repr, dec)) != sorted(map(repr, items)):
        return Failure("permutation:decode-not-a-rearrangement", y=y, dec=dec)
    if [repr(t) for t in dec] != [repr(L[j]) for j in y]:
        return Failure("permutation:decode-inconsistent-with-index-order", y=y, dec=dec, L=L)
    return OK


def ob_permutation_values(n):
    def f():
        with env(rng_layer()):
            items = ITEMS[n]
            v = M.PermutationVariable(name="p", items=list(items))
            x = [sym.real(f"x{i}") for i in range(n)]
            return perm_laws(v, n, x, items)
    return f


def ob_permutation_int_keys(n):
    """integer key vectors (ties, out-of-range values) are finite inputs too"""
    def f():
        with env(rng_layer()):
            items = ITEMS[n]
            v = M.PermutationVariable(name="p", items=list(items))
            x = [sym.integer(f"k{i}", -2, n + 1) for i in range(n)]
            r = perm_laws(v, n, x, items)
            if r is not OK:
                return r
            y = v.correct(x)
            for a in range(n):
                for b in range(n):
                    if x[a] < x[b] and not y[a] < y[b]:
                        return Failure("permutation:correct-does-not-follow-the-key-order", x=x, y=y)
            return OK
    return f


def ob_scalar_int_inputs():
    def f():
        with env(rng_layer()):
            lo, hi = sym.real("lb"), sym.real("ub")
            sym.assume(lo < hi)
            c = M.ContinuousVariable(name="c", lower_bound=lo, upper_bound=hi)
            k = sym.integer("k", -5, 5)
            y = c.correct(k)
            if not member(y, ("cont", lo, hi)) or (lo <= k <= hi and y != k):
                return Failure("continuous:integer-input", k=k, y=y)
            d = M.DiscreteVariable(name="d", choices=["a", "b", "c"])
            z = d.correct(k)
            if not member(z, ("disc", 3)) or (0 <= k <= 2 and z != k) or d.correct(z) != z:
                return Failure("discrete:integer-input", k=k, z=z)
            return OK
    return f


def ob_permutation_members(n):
    def f():
        with env(rng_layer()):
            items = ITEMS[n]
            v = M.PermutationVariable(name="p", items=list(items))
            p = sym.perm("p", n)
            y = v.correct(p)
            if list(y) != list(p):
                return Failure("permutation:member-changed", p=p, y=y)
            r = perm_laws(v, n, p, items)
            if r is not OK:
                return r
            rnd = v.randomize()
            if not member(rnd, ("perm", n)):
                return Failure("permutation:randomize-not-member", r=rnd)
            if v.size() != 1 or v.has_children():
                return Failure("permutation:shape")
            lb, ub = v.get_bounds()
            if len(lb) != n or len(ub) != n or any(not a <= b for a, b in zip(lb, ub)):
                return Failure("permutation:bounds")
            return OK
    return f


def ob_cont_multi_ctor(cls_name, k):
    def f():
        with env():
            cls = getattr(M, cls_name)
            lbs = [sym.real(f"lb{i}") for i in range(k)]
            ubs = [sym.real(f"ub{i}") for i in range(k)]
            try:
                v = cls(name="m", lower_bounds=list(lbs), upper_bounds=list(ubs))
            except ValueError:
                return OK if not all(a < b for a, b in zip(lbs, ubs)) else \
                    Failure("multi:valid-bounds-rejected", lbs=lbs, ubs=ubs)
            if not all(a < b for a, b in zip(lbs, ubs)):
                return Failure("multi:invalid-bounds-accepted", lbs=lbs, ubs=ubs)
            glb, gub = v.get_bounds()
            if list(glb) != lbs or list(gub) != ubs or v.size() != k or len(v.get()) != k or not v.has_children():
                return Failure("multi:get_bounds/size")
            return OK
    return f


def ob_cont_multi(cls_name, k):
    def f():
        with env(rng_layer()):
            cls = getattr(M, cls_name)
            lbs = [sym.real(f"lb{i}") for i in range(k)]
            ubs = [sym.real(f"ub{i}") for i in range(k)]
            for a, b in zip(lbs, ubs):
                sym.assume(a < b)
            v = cls(name="m", lower_bounds=list(lbs), upper_bounds=list(ubs))
            x = [sym.real(f"x{i}") for i in range(k)]
            y = v.correct(x)
            if len(y) != k:
                return Failure("multi:size")
            for i in range(k):
                d = ("cont", lbs[i], ubs[i])
                exp = x[i] if lbs[i] <= x[i] <= ubs[i] else (lbs[i] if x[i] < lbs[i] else ubs[i])
                if not member(y[i], d) or y[i] != exp:
                    return Failure("multi:coordinate-rule", i=i, x=x, y=y)
            if list(v.correct(y)) != list(y) or list(v.decode(y)) != list(y):
                return Failure("multi:idempotent/decode")
            return OK
    return f


def ob_cont_multi_randomize(cls_name, k):
    def f():
        with env(rng_layer()):
            cls = getattr(M, cls_name)
            lbs, ubs = [-1.0, 0.0, 2.5, -7.0][:k], [1.0, 0.5, 3.0, -6.0][:k]
            v = cls(name="m", lower_bounds=list(lbs), upper_bounds=list(ubs))
            r = v.randomize()
            if len(r) != k or not all(member(r[i], ("cont", lbs[i], ubs[i])) for i in range(k)):
                return Failure("multi:randomize-not-member", r=r)
            return OK
    return f


def ob_cont_multi_lengths(cls_name):
    def f():
        cls = getattr(M, cls_name)
        for a, b in ((1, 2), (2, 1), (0, 1), (3, 2)):
            try:
                cls(name="m", lower_bounds=[0.0] * a, upper_bounds=[1.0] * b)
                return Failure("multi:length-mismatch-accepted", a=a, b=b)
            except ValueError:
                pass
        return OK
    return f


def ob_discrete_multi(sizes):
    def f():
        with env(rng_layer()):
            choices = [[f"c{i}_{j}" for j in range(n)] for i, n in enumerate(sizes)]
            v = M.DiscreteMultiVariable(name="dm", choices=[list(c) for c in choices])
            k = len(sizes)
            x = [sym.real(f"x{i}") for i in range(k)]
            y = v.correct(x)
            if len(y) != k or v.size() != k or not v.has_children() or len(v.get()) != k:
                return Failure("discrete_multi:size")
            for i in range(k):
                if not member(y[i], ("disc", sizes[i])):
                    return Failure("discrete_multi:not-member", i=i, x=x, y=y)
            if list(v.correct(y)) != list(y):
                return Failure("discrete_multi:not-idempotent")
            dec = v.decode(y)
            if any(dec[i] != choices[i][y[i]] for i in range(k)):
                return Failure("discrete_multi:decode", y=y, dec=dec)
            r = v.randomize()
            if len(r) != k or not all(member(r[i], ("disc", sizes[i])) for i in range(k)):
                return Failure("discrete_multi:randomize-not-member", r=r)
            return OK
    return f


def ob_binary_ctor():
    def f():
        with env(rng_layer()):
            n = sym.integer("n_vars", -2, 3)
            try:
                v = M.BinaryVariable(name="b", n_vars=n)
                if n <= 0:
                    return Failure("binary:non-positive-size-accepted", n=n)
            except ValueError:
                return OK if n <= 0 else Failure("binary:positive-size-rejected", n=n)
            if v.size() != n or len(v.get()) != n or not v.has_children():
                return Failure("binary:size", n=n)
            return OK
    return f


def ob_binary(k):
    def f():
        with env(rng_layer()):
            v = M.BinaryVariable(name="b", n_vars=k)
            x = [sym.real(f"x{i}") for i in range(k)]
            y = v.correct(x)
            if len(y) != k or any(not member(t, ("disc", 2)) for t in y):
                return Failure("binary:not-member", x=x, y=y)
            if list(v.correct(y)) != list(y) or list(v.decode(y)) != list(y):
                return Failure("binary:idempotent/decode", y=y)
            r = v.randomize()
            if len(r) != k or any(not member(t, ("disc", 2)) for t in r):
                return Failure("binary:randomize-not-member", r=r)
            lb, ub = v.get_bounds()
            if len(lb) != k or len(ub) != k or any(not (a <= 0 and 1 <= b) for a, b in zip(lb, ub)):
                return Failure("binary:bounds")
            return OK
    return f


def twin():
    def f():
        with env():
            v = M.ContinuousVariable(name="c", lower_bound=0.0, upper_bound=1.0)
            x = sym.real("x")
            return OK if v.correct(x) == x else Failure("twin:correct-is-not-identity")
    return f


def obligations(tier):
    th = tier == "thorough"
    obs = [Ob("continuous", ob_continuous(), 60), Ob("continuous_concrete", ob_continuous_concrete(), 30),
           Ob("discrete_concrete", ob_discrete_concrete(), 30), Ob("binary_ctor", ob_binary_ctor(), 60),
           Ob("multi_concrete", ob_multi_concrete(), 30),
           Ob("continuous_low_precision", ob_continuous_low_precision(), 30)]
    for n in range(1, (6 if th else 4) + 1):
        obs.append(Ob(f"discrete[n={n}]", ob_discrete(n), 120))
    for n in range(1, (5 if th else 4) + 1):
        obs.append(Ob(f"permutation_values[n={n}]", ob_permutation_values(n), 600 if n >= 5 else 120))
        obs.append(Ob(f"permutation_members[n={n}]", ob_permutation_members(n), 600 if n >= 5 else 120))
    obs.append(Ob("scalar_int_inputs", ob_scalar_int_inputs(), 120))
    for n in range(1, (4 if th else 3) + 1):
        obs.append(Ob(f"permutation_int_keys[n={n}]", ob_permutation_int_keys(n), 600))
    for cls in ("ContinuousMultiVariable", "MultiObjectiveVariable"):
        obs.append(Ob(f"cont_multi_lengths[{cls}]", ob_cont_multi_lengths(cls), 30))
        for k in range(1, (4 if th else 3) + 1):
            obs.append(Ob(f"cont_multi_ctor[{cls},k={k}]", ob_cont_multi_ctor(cls, k), 200))
            obs.append(Ob(f"cont_multi[{cls},k={k}]", ob_cont_multi(cls, k), 600 if k >= 4 else 200))
            obs.append(Ob(f"cont_multi_randomize[{cls},k={k}]", ob_cont_multi_randomize(cls, k), 100))
    for sizes in ([3], [2, 3], [1, 2, 3]) + (([2, 2, 2, 2],) if th else ()):
        obs.append(Ob(f"discrete_multi[{'x'.join(map(str, sizes))}]", ob_discrete_multi(list(sizes)), 300))
    for k in range(1, (4 if th else 3) + 1):
        obs.append(Ob(f"binary[k={k}]", ob_binary(k), 300))
    obs.append(Ob("twin_vacuity", twin(), 30, expect_refuted=True))
    return obs
