"""C14 - a task's search-space description is consistent with its variables."""
import itertools
from .common import *          # noqa

META = {
    "explanation": "For every list of variables up to the bound (all ordered lists over the variant alphabet "
                   "C, CM1, CM2, D3, DM1, DM2, DM3, P3, MO2, B1, B2) the real Task constructor, get_variables, "
                   "get_bounds, correct_solution, initial_solution, empty_solution and transform_solution run on "
                   "symbolic candidates (and symbolic bounds for scalar continuous variables). Oracles are derived "
                   "from the variable objects' declared fields only (obligations/common.leaf_decls).",
    "bounds": {"quick": "all single variables + all ordered pairs with flat dimension <= 3 (95 lists)",
               "thorough": "all ordered pairs (dimension <= 5) and ordered triples with flat dimension <= 4"},
    "outside": "get_bounds on lists that mix a permutation variable with other variables (numpy ragged array: the "
               "statement's 'pair per coordinate' is ambiguous for a nested permutation coordinate); NaN candidates",
    "stubs": ["np.clip/np.argsort/np.array pure-Python on symbolic values", "np.random.* -> symbolic stream",
              "pydantic-lite constructors"],
    "assumptions": ["finite floats as reals (correction only compares / truncates)"],
}

ALPHABET = ["C", "CM1", "CM2", "D3", "DM1", "DM2", "DM3", "P3", "MO2", "B1", "B2"]


def var_lists(tier):
    out = []
    th = tier == "thorough"
    for L in (1, 2, 3) if th else (1, 2):
        for names in itertools.product(ALPHABET, repeat=L):
            d = flat_size(names)
            if L == 1 or (th and (d <= 4 or (L == 2 and d <= 5))) or (not th and d <= 3):
                out.append(names)
    return out


def _task(names, symbolic_bounds=True):
    vs = build_vars(names, symbolic_bounds)
    return vs, make_task(vs, lambda x, i: 0.0)


def expected_correct(coord, decl):
    """the owning variable's rule, written from the declaration"""
    if decl[0] == "cont":
        return coord if decl[1] <= coord <= decl[2] else (decl[1] if coord < decl[1] else decl[2])
    if decl[0] == "disc":
        c = coord if 0 <= coord <= decl[1] - 1 else (0 if coord < 0 else decl[1] - 1)
        return int(c)
    return None


def own_bounds(v):
    """per-coordinate (lb, ub) pairs of one top-level variable, from its declared fields"""
    if isinstance(v, M.ContinuousVariable):
        return [(v.lower_bound, v.upper_bound)]
    if isinstance(v, (M.ContinuousMultiVariable, M.MultiObjectiveVariable)):
        return list(zip(v.lower_bounds, v.upper_bounds))
    if isinstance(v, M.DiscreteVariable):
        return [(0, len(v.choices) - 1)]
    if isinstance(v, M.DiscreteMultiVariable):
        return [(0, len(c) - 1) for c in v.choices]
    if isinstance(v, M.BinaryVariable):
        lb, ub = v.get_bounds()          # documented (0, 2 - eps) per bit
        return list(zip(list(lb), list(ub)))
    raise AssertionError(type(v))


def ob_shape(names):
    def f():
        with env():
            vs, t = _task(names)
            decls = leaf_decls(vs)
            dim = len(decls)
            if t.space_dimension != dim or t.space_dimension != sum(v.size() for v in vs):
                return Failure("dimension", got=t.space_dimension, expected=dim)
            flat = t.get_variables()
            if len(flat) != dim:
                return Failure("get_variables:length", got=len(flat), expected=dim)
            has_perm = any(d[0] == "perm" for d in decls)
            if has_perm and len(names) > 1:
                return OK          # mixed permutation lists: bounds outside the claim (see META.outside)
            lb, ub = t.get_bounds()
            if has_perm:
                return OK if len(lb) == 1 and len(ub) == 1 and len(lb[0]) == decls[0][1] else \
                    Failure("get_bounds:permutation-shape")
            exp = [p for v in vs for p in own_bounds(v)]
            if len(lb) != dim or len(ub) != dim:
                return Failure("get_bounds:length", lb=len(lb), ub=len(ub), expected=dim)
            for i in range(dim):
                if lb[i] != exp[i][0] or ub[i] != exp[i][1]:
                    return Failure("get_bounds:not-the-owners-bounds", i=i, lb=list(lb), ub=list(ub),
                                   expected=[list(p) for p in exp])
                if lb[i] > ub[i]:
                    return Failure("get_bounds:lower-above-upper", i=i)
            bw, sb = t.bandwidth(), t.sum_bounds()
            if len(bw) != dim or len(sb) != dim or any(bw[i] != exp[i][1] - exp[i][0] for i in range(dim)):
                return Failure("bandwidth/sum_bounds")
            return OK
    return f


def ob_correct(names):
    def f():
        with env():
            vs, t = _task(names)
            decls = leaf_decls(vs)
            dim = len(decls)
            x = sym_candidate(decls)
            y = t.correct_solution(x)
            if len(y) != dim:
                return Failure("correct_solution:length", got=len(y), expected=dim)
            for i, d in enumerate(decls):
                if not member(y[i], d):
                    return Failure("correct_solution:not-member", i=i, x=x, y=y)
                e = expected_correct(x[i], d)
                if e is not None and y[i] != e:
                    return Failure("correct_solution:not-the-owners-rule", i=i, x=x, y=y)
                if d[0] == "perm":
                    for a in range(d[1]):
                        for b in range(d[1]):
                            if x[i][a] < x[i][b] and not y[i][a] < y[i][b]:
                                return Failure("correct_solution:permutation-order", i=i, x=x, y=y)
            z = t.initial_solution(list(x))
            if len(z) != dim or any(z[i] != y[i] for i in range(dim)):
                return Failure("initial_solution:differs-from-correct_solution", y=y, z=z)
            return OK
    return f


def ob_random(names):
    def f():
        st = stubs.Stream("np")
        with env(stubs.numpy_stream_layer(lambda: st)):
            vs, t = _task(names, symbolic_bounds=False)
            decls = leaf_decls(vs)
            dim = len(decls)
            e = t.empty_solution()
            if len(e) != dim or not in_space(e, decls):
                return Failure("empty_solution:not-a-member", e=e)
            if sum(1 for d in decls if d[0] == "perm") >= 2:
                return OK          # (36 x 36 stream orders already; the second call adds nothing new)
            r = t.initial_solution()
            if len(r) != dim or not in_space(r, decls):
                return Failure("initial_solution():not-a-member", r=r)
            return OK
    return f


def ob_transform(names):
    def f():
        with env():
            vs, t = _task(names, symbolic_bounds=False)
            decls = leaf_decls(vs)
            pos = t.correct_solution(sym_candidate(decls))          # a member position
            out = t.transform_solution(pos)
            if list(out.keys()) != [v.name for v in vs]:
                return Failure("transform_solution:keys", keys=list(out.keys()))
            c = 0
            for v in vs:
                sl = pos[c:c + v.size()]
                c += v.size()
                exp = v.decode(sl) if v.has_children() else v.decode(sl[0])
                if out[v.name] != exp:
                    return Failure("transform_solution:value-is-not-the-owners-decoded-slice", var=v.name,
                                   got=out[v.name], expected=exp)
            return OK
    return f


def twin():
    def f():
        with env():
            vs, t = _task(("C", "D3"))
            x = sym_candidate(leaf_decls(vs))
            return OK if t.correct_solution(x) == x else Failure("twin:correct-is-not-identity")
    return f


def obligations(tier):
    obs = []
    for names in var_lists(tier):
        tag = "+".join(names)
        dim = flat_size(names)
        t = 60 if dim <= 3 else (240 if dim == 4 else 900)
        obs.append(Ob(f"shape[{tag}]", ob_shape(names), 60))
        obs.append(Ob(f"correct[{tag}]", ob_correct(names), t))
        obs.append(Ob(f"transform[{tag}]", ob_transform(names), t))
        obs.append(Ob(f"random[{tag}]", ob_random(names), t))
    obs.append(Ob("twin_vacuity", twin(), 30, expect_refuted=True))
    return obs
