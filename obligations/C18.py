"""C18 - every optimizer honours the uniform construction / configuration API."""
import numpy as np
from .common import *          # noqa
from .funnel import optimizer_classes, config_class, test_config

META = {
    "explanation": "For each of the 84 exported optimizers (configuration class discovered from the constructor "
                   "annotation): Cls() does not raise; Cls().optimize(task) raises ValueError before any objective call; "
                   "for a parameter dictionary whose numeric fields are solver variables (ints in a window around the "
                   "test-suite value, floats unconstrained, list elements symbolic) set_config_parameters(d) raises a "
                   "validation error exactly when Config(**d) does, otherwise `configuration` equals Config(**d) field "
                   "by field and is an instance of the same class; the instance state after Cls() + "
                   "set_config_parameters(d) equals the state after Cls(Config(**d)). A second family varies list "
                   "lengths (0..3) concretely. Refutation-only family `reconfigure`: private numeric / None fields are havocked "
                   "(an earlier run under another configuration), set_config_parameters(d) + the per-run initialisation "
                   "run on the dirty and on a clean instance; a surviving field is a candidate, reported only if the API "
                   "replay (run; set_config_parameters(d1); run - versus Cls(Config(**d1)), several d1) differs.",
    "bounds": {"quick": "84 classes; ints in [v-6, v+6]; floats symbolic; list lengths 0..3",
               "thorough": "same with ints in [v-12, v+12]"},
    "outside": "pydantic's strict type errors (well-typed dictionaries only); that equal instance state implies equal "
               "runs relies on determinism of the methods in state + RNG (C07/C08)",
    "stubs": ["pydantic-lite (repository validators unchanged; conlist length metadata enforced)"],
    "assumptions": ["finite floats as reals in validators (range comparisons only)"],
}


def sym_params(kw, window):
    d = {}
    for k, v in kw.items():
        if isinstance(v, bool):
            d[k] = sym.boolean(k)
        elif isinstance(v, int):
            d[k] = sym.integer(k, v - window, v + window)
        elif isinstance(v, float):
            d[k] = sym.real(k)
        elif isinstance(v, list) and v and all(isinstance(x, (int, float)) and not isinstance(x, bool) for x in v):
            d[k] = [sym.real(f"{k}.{i}") if isinstance(x, float) else sym.integer(f"{k}.{i}", x - window, x + window)
                    for i, x in enumerate(v)]
        else:
            d[k] = v
    return d


def cfg_equal(a, b):
    if type(a) is not type(b):
        return False
    da, db = a.__dict__, b.__dict__
    if list(da.keys()) != list(db.keys()):
        return False
    for k in da:
        x, y = da[k], db[k]
        if isinstance(x, M.EarlyStopping) or isinstance(y, M.EarlyStopping):
            if type(x) is not type(y) or x.__dict__ != y.__dict__:
                return False
        elif x != y:
            return False
    return True


def state_equal(o1, o2):
    v1, v2 = vars(o1), vars(o2)
    if list(v1.keys()) != list(v2.keys()):
        return "attribute-set"
    for k in v1:
        a, b = v1[k], v2[k]
        if k == "_config":
            if not cfg_equal(a, b):
                return k
        elif isinstance(a, np.ndarray) or isinstance(b, np.ndarray):
            if not (isinstance(a, np.ndarray) and isinstance(b, np.ndarray) and a.shape == b.shape and bool(np.all(a == b))):
                return k
        elif a != b and not (a != a and b != b):
            return k
    return None


def ob_construct(cname):
    cls = optimizer_classes()[cname]

    def f():
        with env():
            try:
                o = cls()
            except Exception as e:
                return Failure("constructor-without-configuration-raises", cls=cname, error=repr(e)[:200])
            if o.configuration is not None:
                return Failure("configuration-is-not-None-before-one-is-given", cls=cname)
            t = make_task([cont()], lambda x, i: 0.0)
            try:
                o.optimize(t)
                return Failure("optimize-without-configuration-does-not-raise", cls=cname)
            except ValueError:
                pass
            except Exception as e:
                return Failure("optimize-without-configuration-raises-another-error", cls=cname, error=repr(e)[:200])
            if t.data["log"]:
                return Failure("objective-evaluated-without-configuration", cls=cname)
            return OK
    return f


def check_params(cls, C, d):
    # whatever Config(**d) does - accept, ValueError/ValidationError, or a validator that crashes on the value (e.g.
    # Fox's `0 < pp < 1` on pp=None) - set_config_parameters(d) must do the same
    try:
        ref = C(**d)
        ref_err = None
    except Exception as e:
        ref, ref_err = None, e
    o = cls()
    try:
        o.set_config_parameters(dict(d))
        got_err = None
    except Exception as e:
        got_err = e

    def kind(e):
        return None if e is None else ("ValueError" if isinstance(e, ValueError) else type(e).__name__)
    if kind(ref_err) != kind(got_err):
        return Failure("set_config_parameters-and-the-config-class-disagree-on-validity", params=d,
                       config_class=kind(ref_err), set_config_parameters=kind(got_err))
    if ref_err is not None:
        return OK
    if ref_err is None and not cfg_equal(o.configuration, ref):
        return Failure("configuration-differs-from-Config(**d)", params=d,
                       got=type(o.configuration).__name__, expected=type(ref).__name__)
    # the same on a verbose instance (debug=True; print is a no-op here)
    od = cls(debug=True)
    try:
        od.set_config_parameters(dict(d))
        errd = None
    except Exception as e:
        errd = e
    if kind(ref_err) != kind(errd) or (ref_err is None and not cfg_equal(od.configuration, ref)):
        return Failure("set_config_parameters-on-a-debug-instance-disagrees-with-the-config-class", params=d,
                       config_class=kind(ref_err), set_config_parameters=kind(errd))
    # the same on an instance that already holds a configuration (constructed with one / configured before)
    o3 = cls(C(**test_config(cls)))
    try:
        o3.set_config_parameters(dict(d))
        err3 = None
    except Exception as e:
        err3 = e
    if kind(ref_err) != kind(err3):
        return Failure("set_config_parameters-on-a-configured-instance-disagrees-with-the-config-class-on-validity",
                       params=d, config_class=kind(ref_err), set_config_parameters=kind(err3))
    if ref_err is None and not cfg_equal(o3.configuration, ref):
        return Failure("configuration-of-a-re-configured-instance-differs-from-Config(**d)", params=d)
    o2 = cls(C(**d))
    bad = state_equal(o, o2)
    if bad is not None:
        return Failure("state-after-set_config_parameters-differs-from-constructor-with-config", field=bad, params=d)
    return OK


def ob_params(cname, window):
    cls = optimizer_classes()[cname]

    def f():
        with env():
            C = config_class(cls)
            return check_params(cls, C, sym_params(test_config(cls), window))
    return f


def ob_list_lengths(cname):
    cls = optimizer_classes()[cname]

    def f():
        with env():
            C = config_class(cls)
            kw = test_config(cls)
            lists = [k for k, v in kw.items() if isinstance(v, list)]
            for k in lists:
                for n in range(0, 4):
                    d = dict(kw)
                    d[k] = (list(kw[k]) * 4)[:n]
                    r = check_params(cls, C, d)
                    if r is not OK:
                        return r
            # None is a value, not "unset": every field whose annotation admits None (fitness_error, early_stopping, ...)
            import types
            import typing
            for name, fld in C.model_fields.items():
                ann = fld.annotation
                if typing.get_origin(ann) in (typing.Union, types.UnionType) and type(None) in typing.get_args(ann):
                    r = check_params(cls, C, dict(kw, **{name: None}))
                    if r is not OK:
                        return r
            r = check_params(cls, C, dict(kw, early_stopping=M.EarlyStopping(patience=2, min_delta=0.5)))
            if r is not OK:
                return r
            # missing / extra keys
            for k in list(kw)[:3]:
                d = dict(kw)
                d.pop(k)
                r = check_params(cls, C, d)
                if r is not OK:
                    return r
            return OK
    return f


def config_variants(C, kw, limit=8):
    """valid configurations that differ from kw in one numeric field"""
    out = []
    for k, v in kw.items():
        if isinstance(v, bool) or k in ("max_cycles", "fitness_error"):
            continue
        cands = []
        if isinstance(v, int):
            cands = [v + 1, v - 1, v * 2, v + 3]
        elif isinstance(v, float):
            cands = [v * 0.5, v * 1.5, v + 0.3, 0.7, 0.1]
        for c in cands:
            d = dict(kw, **{k: c})
            try:
                C(**d)
            except Exception:
                continue
            if c != v:
                out.append(d)
                break
    return out[:limit]


def api_reconfigure(cls):
    """run, re-configure with set_config_parameters(d1), run again - versus a run of Cls(Config(**d1)) (real code,
    identical seeds); first differing variant is reported"""
    import random
    from .C08 import _task, _result_sig
    C, kw = config_class(cls), test_config(cls)

    def run(o):
        random.seed(11)
        return _result_sig(o.optimize(_task()))
    for d1 in config_variants(C, kw):
        try:
            fresh = run(cls(C(**d1)))
            if run(cls(C(**d1))) != fresh:
                continue          # not deterministic under identical seeds
            for first in (lambda: cls(C(**kw)), lambda: _configured(cls, kw)):
                o = first()
                run(o)
                o.set_config_parameters(dict(d1))
                if run(o) != fresh:
                    return {k: (kw[k], d1[k]) for k in kw if kw[k] != d1[k]}
        except Exception:
            continue
    return None


def _configured(cls, kw):
    o = cls()
    o.set_config_parameters(dict(kw))
    return o


def ob_reconfigure(cname):
    """arbitrary-pre-state pattern for 'a run after set_config_parameters(d) is identical to a run of an optimizer
    constructed with that configuration', also when the instance has been used before: private numeric / not-yet-
    computed (None) fields hold arbitrary values, then set_config_parameters(d) and the per-run initialisation path run
    on this instance and on a clean one; a field that ends different is a candidate, decided by the API replay."""
    cls = optimizer_classes()[cname]

    def f():
        from .C08 import _task, _base_fields, _same
        if sym.MODE == "replay":
            changed = api_reconfigure(cls)
            if changed is not None:
                return Failure("run-after-set_config_parameters-differs-from-an-optimizer-constructed-with-that-"
                               "configuration", cls=cname, reconfigured=changed)
            return OK
        with env(rng_deny=False):
            kw = test_config(cls)
            clean, dirty = cls(), cls()
            base = _base_fields()
            marks = {}
            for k in [k for k in vars(dirty) if k not in base]:
                v = getattr(dirty, k)
                if v is None or (isinstance(v, float) and not isinstance(v, bool)):
                    marks[k] = sym.real(k)
                elif isinstance(v, int) and not isinstance(v, bool):
                    marks[k] = sym.integer(k, -5, 5)
                else:
                    continue
                setattr(dirty, k, marks[k])
            for o in (clean, dirty):
                o.set_config_parameters(dict(kw))
                np.random.seed(1)
                o._task = _task()
                o.before_initialization()
                o._init_population()
                o.after_initialization()
            bad = [k for k in marks if not _same(getattr(clean, k), getattr(dirty, k))]
            if bad:
                return Failure("private-field-survives-set_config_parameters-and-the-per-run-initialisation",
                               cls=cname, fields=bad)
            return OK
    return f


def twin():
    def f():
        with env():
            cls = optimizer_classes()["ParticleSwarmOptimization"]
            C = config_class(cls)
            d = sym_params(test_config(cls), 3)
            try:
                C(**d)
            except ValueError:
                return Failure("twin:some-parameters-are-invalid")
            return OK
    return f


def obligations(tier):
    th = tier == "thorough"
    obs = []
    for cname in optimizer_classes():
        obs.append(Ob(f"construct[{cname}]", ob_construct(cname), 60))
        obs.append(Ob(f"params[{cname}]", ob_params(cname, 12 if th else 6), 300))
        obs.append(Ob(f"shapes[{cname}]", ob_list_lengths(cname), 120))
        obs.append(Ob(f"reconfigure[{cname}]", ob_reconfigure(cname), 60, refutation_only=True, api_replay_decides=True))
    obs.append(Ob("twin_vacuity", twin(), 60, expect_refuted=True))
    return obs
