"""Shared building blocks of the obligations: symbolic agents, scripted optimizer, task shapes, membership oracle."""
import os
from types import SimpleNamespace

from engine import sym
from engine.driver import Failure, OK          # noqa: F401
from engine.runner import Ob                   # noqa: F401
from engine.stubs import env                   # noqa: F401
from engine import stubs                       # noqa: F401

import importlib
import pyvolutionary          # noqa: F401


def repo_mod(name):
    """`import pyvolutionary.models as M` would bind a sub-package's `models` (star imports in __init__)."""
    return importlib.import_module("pyvolutionary." + name)


A = repo_mod("abstract")
M = repo_mod("models")
H = repo_mod("helpers")
from pyvolutionary.enums import TaskType, ModeSolver          # noqa: F401
from pyvolutionary.models import Agent

TIER = lambda: os.environ.get("VERIF_TIER", "quick")          # noqa: E731
MIN, MAX = TaskType.MIN, TaskType.MAX
DIRS = {"min": TaskType.MIN, "max": TaskType.MAX}


def agent(tag, cost, fitness=0.0, position=None):
    """An Agent built without validation (so that symbolic fields survive also under the real pydantic)."""
    return Agent.model_construct(position=[tag] if position is None else position, cost=cost, fitness=fitness)


def costs_of(agents):
    return [a.cost for a in agents]


def tags_of(agents):
    return [a.position[0] for a in agents]


def better(a, b, direction):
    """a strictly better than b in the given direction (user-facing costs)."""
    return a < b if direction == TaskType.MIN else a > b          # (RAW_MAX is a maximisation)


def config(**kw):
    base = dict(population_size=1, fitness_error=None, max_cycles=1, early_stopping=None)
    base.update(kw)
    return SimpleNamespace(**base)


class Scripted(A.OptimizationAbstract):
    """A real subclass of OptimizationAbstract whose update rule is a script supplied by the obligation: it stands
    for 'any algorithm that uses the base-class API'."""
    def __init__(self, cfg=None, step=None, init=None, before=None, after=None):
        super().__init__(cfg)
        self.step_fn, self.init_fn, self.before_fn, self.after_fn = step, init, before, after
        self.steps = 0

    def optimization_step(self):
        self.steps += 1
        if self.step_fn is not None:
            self.step_fn(self, self.steps)

    def set_config_parameters(self, parameters):
        self._config = M.BaseOptimizationConfig(**parameters)

    def before_initialization(self):
        if self.before_fn is not None:
            self.before_fn(self)

    def after_initialization(self):
        if self.after_fn is not None:
            self.after_fn(self)

    def _init_population(self):
        if self.init_fn is not None:
            self._population = self.init_fn(self)
        else:
            super()._init_population()


class RecordingTask(M.Task):
    """Task whose objective is uninterpreted: each call logs its argument and returns the next prepared value."""
    def objective_function(self, x):
        log = self.data["log"]
        log.append(list(x) if isinstance(x, (list, tuple)) else x)
        f = self.data["f"]
        r = f(x, len(log) - 1)
        if self.data.get("mutate"):
            # an objective is arbitrary user code: it may edit the list it is given in place (rescaling, sorting, ...)
            try:
                for c in x:          # nested coordinates (a permutation is a list inside the position) ...
                    if isinstance(c, list):
                        c.append(99)
                        c[0] = -5
                x[:] = [1e9 for _ in x] + [7]          # ... and the outer list
            except TypeError:
                pass
        return r


class _RawMax:
    """direction given as the raw string "max" that bypassed validation (class-level default, attribute assignment,
    model_copy(update=...)): every direction test of the library is written `== TaskType.MIN ... else maximise`"""


RAW_MAX = _RawMax()
DIRS["max-str"] = RAW_MAX


def make_task(variables, f, minmax=TaskType.MIN, weights=None, seed=None, mutate=False):
    raw = minmax is RAW_MAX
    t = RecordingTask(variables=variables, minmax=TaskType.MAX if raw else minmax, objective_weights=weights, seed=seed,
                      data={"log": [], "f": f, "mutate": mutate})
    if raw:
        t.minmax = "max"
    return t


# ------------------------------------------------------------------------------------------------ variable shapes
def cont(name="c", lo=-1.0, hi=2.0):
    return M.ContinuousVariable(name=name, lower_bound=lo, upper_bound=hi)


def sym_cont(name="c"):
    lo = sym.real(name + ".lb")
    hi = sym.real(name + ".ub")
    sym.assume(lo < hi)
    return M.ContinuousVariable(name=name, lower_bound=lo, upper_bound=hi)


VARIANTS = {
    # name -> (factory(symbolic_bounds: bool), flat size)
    "C": (lambda s: sym_cont("C") if s else cont("C"), 1),
    "CM1": (lambda s: M.ContinuousMultiVariable(name="CM1", lower_bounds=[-1.0], upper_bounds=[1.0]), 1),
    "CM2": (lambda s: M.ContinuousMultiVariable(name="CM2", lower_bounds=[-1.0, 0.0], upper_bounds=[1.0, 5.0]), 2),
    "D3": (lambda s: M.DiscreteVariable(name="D3", choices=["a", "b", "c"]), 1),
    "DM1": (lambda s: M.DiscreteMultiVariable(name="DM1", choices=[[10, 20, 30]]), 1),
    "DM2": (lambda s: M.DiscreteMultiVariable(name="DM2", choices=[[10, 20], ["x", "y", "z"]]), 2),
    "DM3": (lambda s: M.DiscreteMultiVariable(name="DM3", choices=[[1, 2], [3, 4, 5], [6]]), 3),
    "P3": (lambda s: M.PermutationVariable(name="P3", items=["p", "q", "r"]), 1),
    "P4": (lambda s: M.PermutationVariable(name="P4", items=[4, 3, 2, 1]), 1),
    "MO2": (lambda s: M.MultiObjectiveVariable(name="MO2", lower_bounds=[0.0, -2.0], upper_bounds=[1.0, 2.0]), 2),
    "B1": (lambda s: M.BinaryVariable(name="B1", n_vars=1), 1),
    "B2": (lambda s: M.BinaryVariable(name="B2", n_vars=2), 2),
}


def build_vars(names, symbolic_bounds=False):
    out = []
    for i, n in enumerate(names):
        v = VARIANTS[n][0](symbolic_bounds)
        v.name = f"{n}_{i}"
        out.append(v)
    return out


def flat_size(names):
    return sum(VARIANTS[n][1] for n in names)


def leaf_decls(variables):
    """Independent re-derivation of the per-coordinate declarations from the variable objects' *fields* (not from
    get_variables/get_bounds, which are code under test): list of ('cont', lb, ub) | ('disc', n) | ('perm', n)."""
    out = []
    for v in variables:
        if isinstance(v, M.ContinuousVariable):
            out.append(("cont", v.lower_bound, v.upper_bound))
        elif isinstance(v, (M.ContinuousMultiVariable, M.MultiObjectiveVariable)):
            out.extend(("cont", lb, ub) for lb, ub in zip(v.lower_bounds, v.upper_bounds))
        elif isinstance(v, M.DiscreteVariable):
            out.append(("disc", len(v.choices)))
        elif isinstance(v, M.DiscreteMultiVariable):
            out.extend(("disc", len(c)) for c in v.choices)
        elif isinstance(v, M.BinaryVariable):
            out.extend(("disc", 2) for _ in range(v.n_vars))
        elif isinstance(v, M.PermutationVariable):
            out.append(("perm", len(v.items)))
        else:
            raise AssertionError(type(v))
    return out


def is_int(v):
    import numpy as np
    if isinstance(v, (bool, np.bool_)):
        return False
    if isinstance(v, (int, np.integer)):
        return True
    return sym.is_symbolic(v) and type(v).__name__ == "SymbolicInt"


def is_number(v):
    import numpy as np
    if isinstance(v, (bool, np.bool_)):
        return False
    if isinstance(v, (int, float, np.integer, np.floating)):
        return True
    return sym.is_symbolic(v) and type(v).__name__ in ("SymbolicInt", "RealBasedSymbolicFloat", "SymbolicFloat")


def member(coord, decl):
    """membership of one coordinate (C01's rules)"""
    kind = decl[0]
    if kind == "cont":
        if not is_number(coord):
            return False
        if not sym.is_symbolic(coord):          # a real-valued symbolic is finite by construction (DESIGN 2.3)
            import math
            if not math.isfinite(coord):
                return False
        return decl[1] <= coord <= decl[2]
    if kind == "disc":
        return is_int(coord) and 0 <= coord < decl[1]
    if kind == "perm":
        if not isinstance(coord, (list, tuple)) or len(coord) != decl[1]:
            return False
        if not all(is_int(c) for c in coord):
            return False
        return sorted(coord) == list(range(decl[1]))
    return False


def in_space(position, decls):
    if not isinstance(position, (list, tuple)) or len(position) != len(decls):
        return False
    for c, d in zip(position, decls):
        if not member(c, d):
            return False
    return True


def sym_candidate(decls, prefix="x", kind="real"):
    """A candidate vector for a search space: one symbolic number per scalar coordinate (`kind`: real | ext | any |
    int - Python ints, as integer-only update rules produce them), a list of numbers for a permutation coordinate."""
    mk = {"real": sym.real, "ext": sym.ext_real, "any": sym.any_float,
          "int": lambda name: sym.integer(name, -4, 6)}[kind]
    out = []
    for i, d in enumerate(decls):
        if d[0] == "perm":
            out.append([mk(f"{prefix}{i}.{j}") for j in range(d[1])])
        else:
            out.append(mk(f"{prefix}{i}"))
    return out
