"""C11 - thread and process modes change scheduling, not guarantees."""
import numpy as np
from .common import *          # noqa
from .C10 import ob_generate_workers

META = {
    "explanation": "Pool model: submit() evaluates in-process, as_completed() yields the futures in a solver-chosen "
                   "order (every permutation is a path). (1) get_pool_results returns every future's result exactly once "
                   "for every completion order; (2) _generate_agents in thread / process mode delivers exactly the "
                   "submitted evaluations (multiset equal to the serial outcome); (3) pooled _greedy_select_population "
                   "yields the same multiset of agents as the serial one; (4) the real optimize() in pooled modes with a "
                   "scripted rule keeps feasibility, truthful costs, the correct best_solution and the size; (5) fork RNG "
                   "model for process mode: every worker starts from a copy of the parent's stream position at fork, "
                   "tasks are assigned to workers by the solver; with pairwise distinct stream elements the initial "
                   "positions must be pairwise distinct. Replays of (5) run on the real ProcessPoolExecutor.",
    "bounds": {"quick": "<=4 pooled tasks in get_pool_results / _generate_agents (all 24 completion orders), <=3 in greedy selection, workers 1..2 in the fork model; any_worker_count: agents 1..8 x workers 1..5",
               "thorough": "<=5 pooled tasks (120 orders), workers 1..3"},
    "outside": "real OS scheduling, pickling failures, worker crashes; the fork assumption (Linux start method); extra "
               "random fields of agent subclasses drawn inside workers",
    "stubs": ["ThreadPoolExecutor/ProcessPoolExecutor/as_completed -> in-process pool model", "np.random.* stream model"],
    "assumptions": ["fork start method: a worker inherits the parent's RNG state at the time it is started",
                    "stream elements of the numpy generator are pairwise distinct (assumed, as for a real PRNG draw)"],
}


class PlainTask(M.Task):
    """module-level (picklable) task for replays on the real process pool"""
    def objective_function(self, x):
        return 0.0


def ob_pool_results(k):
    def f():
        with env(stubs.pool_layer()):
            import concurrent.futures as parallel
            vals = [("v", i) for i in range(k)]
            with H.get_pool_executor(ModeSolver.THREAD, 2) as ex:
                futs = [ex.submit(lambda v=v: v) for v in vals]
                got = H.get_pool_results(futs)
            if sorted(got) != sorted(vals):
                return Failure("get_pool_results:lost-or-duplicated-result", got=got)
            return OK
    return f


def ob_generate(n, mode):
    def f():
        st = stubs.Stream("np")
        with env(stubs.numpy_stream_layer(lambda: st), stubs.pool_layer()):
            # the cost identifies the evaluation (call index): no symbolic sorting is needed to match agents with calls
            t = make_task([cont()], lambda x, i: float(i))
            o = Scripted(config(population_size=n))
            o._task, o._mode, o._workers = t, ModeSolver(mode), 2
            got = o._generate_agents(n)
            log = t.data["log"]
            if len(got) != n or len(log) != n:
                return Failure("pooled-evaluations-lost-or-duplicated", agents=len(got), evaluations=len(log))
            if sorted(a.cost for a in got) != [float(i) for i in range(n)]:
                return Failure("agents-are-not-exactly-the-evaluations", costs=costs_of(got))
            for a in got:          # each evaluation contributes exactly one agent, carrying its own position
                if a.position != log[int(a.cost)]:
                    return Failure("agent-carries-the-position-of-another-evaluation", cost=a.cost, position=a.position)
            return OK
    return f


class EvaluationFailed(Exception):
    pass


def ob_failing_evaluation(mode, n):
    """an objective that raises makes a serial run fail with that exception; a pooled run must not swallow it and go
    on with a smaller population (the failing call index and the completion order are solver choices)"""
    def f():
        st = stubs.Stream("np")
        layers = [stubs.numpy_stream_layer(lambda: st)] + ([stubs.pool_layer()] if mode != "serial" else [])
        with env(*layers):
            bad = sym.choice_index("failing-call", n)

            def obj(x, i):
                if i == bad:
                    raise EvaluationFailed(f"evaluation #{i}")
                return float(i)
            t = make_task([cont()], obj)
            opt = Scripted(M.BaseOptimizationConfig(population_size=n, fitness_error=None, max_cycles=1))
            try:
                res = opt.optimize(t, mode=mode, workers=2)
            except EvaluationFailed:
                return OK
            return Failure("failed-evaluation-swallowed", mode=mode, failing_call=bad,
                           sizes=[len(g.agents) for g in res.evolution])
    return f


def ob_greedy(k, mode):
    def f():
        with env(stubs.pool_layer()):
            old = [agent(("o", i), sym.real(f"o{i}")) for i in range(k)]
            new = [agent(("n", i), sym.real(f"n{i}")) for i in range(k)]
            outs = []
            for m in ("serial", mode):
                o = Scripted(config(population_size=k))
                o._population, o._mode = list(old), ModeSolver(m)
                o._greedy_select_population(list(new))
                outs.append(sorted(tags_of(o._population)))
            if outs[0] != outs[1] or len(outs[1]) != k:
                return Failure("pooled-selection-differs-from-serial", serial=outs[0], pooled=outs[1])
            return OK
    return f


def ob_greedy_short(k, j, mode):
    """fewer (or more) candidates than agents: whatever the serial branch does - it raises IndexError for a short list -
    the pooled branch must do too, not silently drop the unpaired agents"""
    def f():
        with env(stubs.pool_layer()):
            outcomes = []
            for m in ("serial", mode):
                o = Scripted(config(population_size=k))
                o._population = [agent(("o", i), float(i)) for i in range(k)]
                o._mode = ModeSolver(m)
                try:
                    o._greedy_select_population([agent(("n", i), float(i) - 0.5) for i in range(j)])
                    outcomes.append(("ok", sorted(tags_of(o._population))))
                except Exception as e:
                    outcomes.append((type(e).__name__, None))
            if outcomes[0] != outcomes[1]:
                return Failure("pooled-selection-behaves-differently-from-serial", serial=outcomes[0], pooled=outcomes[1],
                               agents=k, candidates=j)
            return OK
    return f


def ob_optimize(mode, n):
    def f():
        st = stubs.Stream("np")
        with env(stubs.numpy_stream_layer(lambda: st), stubs.pool_layer()):
            vs = [cont()]
            decls = leaf_decls(vs)
            # costs by call index (later evaluations cheaper): truthfulness is checked against the evaluation log
            t = make_task(vs, lambda x, i: float(100 - i))

            def step(o, c):
                o._greedy_select_population([o._init_agent([sym.real(f"x{c}.{j}", lo=-1.0, hi=2.0)]) for j in range(n)])
            opt = Scripted(M.BaseOptimizationConfig(population_size=n, fitness_error=None, max_cycles=1), step=step)
            res = opt.optimize(t, mode=mode, workers=2)
            log = t.data["log"]
            evaluated = [(log[i][0], float(100 - i)) for i in range(len(log))]
            for g in res.evolution:
                if len(g.agents) != n:
                    return Failure("size-not-conserved-in-pooled-mode", sizes=[len(x.agents) for x in res.evolution])
                for a in g.agents:
                    if not in_space(a.position, decls):
                        return Failure("infeasible-position-in-pooled-mode", position=a.position)
                    if not any(a.position[0] == p and a.cost == c for p, c in evaluated):
                        return Failure("cost-is-not-the-evaluation-of-the-position-in-pooled-mode", position=a.position,
                                       cost=a.cost)
            b = res.best_solution
            last = res.evolution[-1].agents
            if not any(a.position == b.position and a.cost == b.cost for a in last) or any(a.cost < b.cost for a in last):
                return Failure("best_solution-is-not-the-optimum-of-the-last-generation-in-pooled-mode")
            return OK
    return f


def ob_fork_rng(n, workers, mode):
    def f():
        if sym.MODE == "replay":
            t = PlainTask(variables=[cont(lo=-1.0, hi=2.0)])
            o = Scripted(config(population_size=n))
            o._task, o._mode, o._workers = t, ModeSolver(mode), workers
            np.random.seed(5)
            ps = [a.position[0] for a in o._generate_agents(n)]
            if len(set(ps)) != len(ps):
                return Failure("initial-positions-are-not-pairwise-distinct", positions=ps, mode=mode, workers=workers)
            return OK
        st = stubs.Stream("np", distinct=True)
        state = {"wpos": None}

        def on_submit(pool, fn, a, k):
            if pool.kind == "thread":          # threads share the parent's generator
                return stubs._Fut(fn(*a, **k))
            if state["wpos"] is None:          # fork: every worker copies the parent's position
                state["wpos"] = [st.pos] * (pool.n or 1)
            w = sym.choice_index("worker", pool.n or 1)
            saved = st.pos
            st.pos = state["wpos"][w]
            try:
                return stubs._Fut(fn(*a, **k))
            finally:
                state["wpos"][w] = st.pos
                st.pos = saved
        with env(stubs.numpy_stream_layer(lambda: st), stubs.pool_layer(on_submit=on_submit)):
            t = make_task([cont(lo=-1.0, hi=2.0)], lambda x, i: 0.0)
            o = Scripted(config(population_size=n))
            o._task, o._mode, o._workers = t, ModeSolver(mode), workers
            ps = [a.position[0] for a in o._generate_agents(n)]
            for i in range(n):
                for j in range(i + 1, n):
                    if ps[i] == ps[j]:
                        return Failure("initial-positions-are-not-pairwise-distinct", positions=ps, mode=mode,
                                       workers=workers)
            return OK
    return f


def twin():
    def f():
        with env(stubs.pool_layer()):
            with H.get_pool_executor(ModeSolver.THREAD, 2) as ex:
                futs = [ex.submit(lambda v=v: v) for v in range(3)]
                got = H.get_pool_results(futs)
            return OK if got == [0, 1, 2] else Failure("twin:completion-order-is-not-submission-order")
    return f


def obligations(tier):
    th = tier == "thorough"
    obs = []
    K = 5 if th else 4
    for k in range(1, K + 1):
        obs.append(Ob(f"pool_results[k={k}]", ob_pool_results(k), 120))
        for mode in ("thread", "process"):
            obs.append(Ob(f"generate[n={k},{mode}]", ob_generate(k, mode), 600))
            if k >= 2 and k <= 3:
                obs.append(Ob(f"greedy[k={k},{mode}]", ob_greedy(k, mode), 900))
    for mode in ("thread", "process"):
        obs.append(Ob(f"optimize[{mode},n=2]", ob_optimize(mode, 2), 900))
        # "for any worker count": number of agents and worker count are solver variables (no evaluation lost)
        obs.append(Ob(f"any_worker_count[{mode}]", ob_generate_workers(mode, 12 if th else 8, 6 if th else 5), 900))
    for mode in ("thread", "process"):
        for k, j in ((3, 2), (3, 1), (2, 3)):
            obs.append(Ob(f"greedy_short[k={k},j={j},{mode}]", ob_greedy_short(k, j, mode), 120))
    for mode in ("serial", "thread", "process"):
        obs.append(Ob(f"failing_evaluation[{mode},n=3]", ob_failing_evaluation(mode, 3), 300))
    for n in (2, 3):
        obs.append(Ob(f"fork_rng[n={n},thread]", ob_fork_rng(n, 2, "thread"), 120))
        for w in (1, 2) + ((3,) if th else ()):
            obs.append(Ob(f"fork_rng[n={n},process,workers={w}]", ob_fork_rng(n, w, "process"), 120))
    obs.append(Ob("twin_vacuity", twin(), 30, expect_refuted=True))
    return obs
