"""C09 - optimize() does not modify the caller's configuration or task."""
import numpy as np
from .common import *          # noqa
from .funnel import optimizer_classes, config_class, test_config
from .C08 import _task

META = {
    "explanation": "(a) Base class: the real optimize() runs with a scripted optimizer on every stop-criterion path "
                   "(symbolic rate history, fitness_error, min_delta), in every mode, and on the rejecting paths (no "
                   "configuration, invalid mode, non-positive workers); the configuration and the task are snapshot "
                   "before and compared field by field afterwards (also when optimize() raises). (b) Per class (84), "
                   "refutation-only: before_initialization, _init_population, after_initialization and one "
                   "optimization_step run against a *recording* configuration whose numeric fields are solver "
                   "variables constrained by the class's own validators; every attribute store into the configuration "
                   "is logged, and a store whose new value can differ from the old one is a counterexample (solver "
                   "picks the value), reported only if the replay - a real optimize() comparing model_dump() before and "
                   "after - confirms it. Paths that die in numpy after a store still yield the store.",
    "bounds": {"quick": "(a) max_cycles<=3; (b) init path + first cycle, ints in [v-2,v+2]",
               "thorough": "(a) max_cycles<=4"},
    "outside": "(b) stores that happen later than the first cycle or behind numpy code that rejects symbolic values; "
               "absence of stores in the 84 modules is not established (H2) - a grep of `_config.<x> =` is reported by "
               "the monitor",
    "stubs": ["pydantic-lite", "np.average pure-Python", "recording configuration proxy", "real numpy RNG reseeded (b)"],
    "assumptions": ["finite floats as reals"],
}

from engine import monitor as _monitor          # noqa: E402
META["audit"] = lambda: _monitor.audit(('H2',))


def snap_cfg(c):
    d = dict(c.__dict__)
    if d.get("early_stopping") is not None:
        d["early_stopping"] = dict(d["early_stopping"].__dict__)
    return d


def snap_task(t):
    return dict(seed=t.seed, n=len(t.variables), vars=[dict(v.__dict__) for v in t.variables], dim=t.space_dimension,
                minmax=t.minmax, w=None if t.objective_weights is None else list(t.objective_weights),
                ids=[id(v) for v in t.variables])


def ob_base(mc, use_fe, patience, mode):
    def f():
        st = stubs.Stream("np")
        layers = [stubs.numpy_stream_layer(lambda: st)] + ([stubs.pool_layer()] if mode != "serial" else [])
        with env(*layers):
            fe = sym.real("fitness_error") if use_fe else None
            es = M.EarlyStopping(patience=patience, min_delta=sym.real("min_delta")) if patience else None
            cfg = M.BaseOptimizationConfig(population_size=2, fitness_error=fe, max_cycles=mc, early_stopping=es)
            fits = [sym.real(f"f{c}") for c in range(mc + 1)]
            t = make_task([cont(), M.BinaryVariable(name="b", n_vars=1)], lambda x, i: float(i), weights=None, seed=3)

            def step(o, k):
                o._population = [a.model_copy(update={"fitness": fits[min(k, mc)]}) for a in o._population]
            opt = Scripted(cfg, step=step)
            c0, t0 = snap_cfg(cfg), snap_task(t)
            opt.optimize(t, mode=mode, workers=2)
            if snap_cfg(cfg) != c0 or opt.configuration is not cfg:
                return Failure("configuration-changed", before=c0, after=snap_cfg(cfg))
            t1 = snap_task(t)
            t1_log = t.data.pop("log")
            if t1 != t0:
                return Failure("task-changed")
            return OK
    return f


def ob_any_seed():
    """configuration and task are unchanged after optimize() returns *or raises*, for every integer seed - also one
    the numpy generator rejects (ValueError for seeds outside [0, 2**32))"""
    def f():
        st = stubs.Stream("np")
        with env(stubs.numpy_stream_layer(lambda: st, seed_contract=True)):
            cfg = M.BaseOptimizationConfig(population_size=2, fitness_error=None, max_cycles=1)
            seed = sym.integer("seed", -3, 2 ** 32 + 9)
            t = make_task([cont()], lambda x, i: float(i), seed=seed)
            opt = Scripted(cfg)
            c0, t0 = snap_cfg(cfg), snap_task(t)
            try:
                opt.optimize(t)
            except ValueError:
                if 0 <= seed <= 2 ** 32 - 1:
                    return Failure("valid-seed-rejected", seed=seed)
            if snap_cfg(cfg) != c0:
                return Failure("configuration-changed", seed=seed)
            t1 = snap_task(t)
            if t1 != t0:
                return Failure("task-changed", seed=seed, before=t0["seed"], after=t1["seed"])
            return OK
    return f


def ob_rejected(kind):
    def f():
        with env(allow_seed=True):
            cfg = M.BaseOptimizationConfig(population_size=2, fitness_error=None, max_cycles=1)
            t = make_task([cont()], lambda x, i: 0.0)
            opt = Scripted(None if kind == "no-config" else cfg, init=lambda o: [agent(0, 0.0, 0.5)])
            c0, t0 = snap_cfg(cfg), snap_task(t)
            try:
                if kind == "bad-mode":
                    opt.optimize(t, mode="parallel")
                elif kind == "bad-workers":
                    opt.optimize(t, mode="thread", workers=sym.integer("workers", -3, 0))
                else:
                    opt.optimize(t)
                return Failure("invalid-call-accepted", kind=kind)
            except ValueError:
                pass
            if snap_cfg(cfg) != c0 or snap_task(t) != t0:
                return Failure("configuration-or-task-changed-by-a-rejected-call", kind=kind)
            return OK
    return f


class _FailingTask(M.Task):
    """the objective is undefined everywhere: optimize() raises during the initial population"""
    def objective_function(self, x):
        raise ArithmeticError("objective undefined here")


class RecCfg:
    """stands for the caller's configuration object: attribute reads come from the validated values, every store is
    logged with the value it replaces"""
    def __init__(self, values):
        object.__setattr__(self, "_d", dict(values))
        object.__setattr__(self, "_log", [])

    def __getattr__(self, k):
        try:
            return self._d[k]
        except KeyError:
            raise AttributeError(k)

    def __setattr__(self, k, v):
        self._log.append((k, self._d.get(k), v))
        self._d[k] = v


def ob_class(cname, window):
    cls = optimizer_classes()[cname]

    def f():
        C = config_class(cls)
        kw = test_config(cls)
        # configuration values: numeric scalars and the elements of numeric lists are solver variables
        d = {}
        for k, v in kw.items():
            if isinstance(v, bool) or not isinstance(v, (int, float, list)):
                d[k] = v
            elif isinstance(v, int):
                d[k] = sym.integer(k, max(1, v - window), v + window)
            elif isinstance(v, float):
                d[k] = sym.real(k)
            elif v and all(isinstance(x, float) for x in v):
                d[k] = [sym.real(f"{k}.{i}") for i in range(len(v))]
            else:
                d[k] = list(v)
        if sym.MODE == "replay":          # the recorded values, through the public API, on the real libraries
            try:
                cfg = C(**d)
            except Exception:
                return OK
            for task in (_task(), _FailingTask(variables=_task().variables, seed=7)):          # returns / raises
                before = cfg.model_dump()
                try:
                    cls(cfg).optimize(task)
                except Exception:
                    pass
                after = cfg.model_dump()
                if before != after:
                    diff = {k: (before[k], after[k]) for k in before if before[k] != after[k]}
                    return Failure("configuration-differs-after-optimize", cls=cname, changed=diff,
                                   optimize="raised" if isinstance(task, _FailingTask) else "returned")
            return OK
        with env(rng_deny=False):
            try:
                valid = C(**d)
            except ValueError:
                sym.assume(False)
            snapshot = {k: (list(v) if isinstance(v, list) else v) for k, v in valid.__dict__.items()}
            rec = RecCfg(valid.__dict__)
            o = cls()
            o._config = rec
            o._task = _task()
            np.random.seed(1)
            died = None
            try:
                o.before_initialization()
                # the first evaluation may raise right here (optimize() has no try/finally around the hooks): what
                # before_initialization stored is then what the caller keeps
                pending = [(k, old, new) for (k, old, new) in rec._log if old != new]
                if pending:
                    k, old, new = pending[0]
                    return Failure("store-into-the-configuration-outstanding-when-initialisation-may-fail", cls=cname,
                                   field=k, old=old, new=new)
                o._init_population()
                (o._best_agent,), (o._worst_agent,) = H.special_agents(o._population, n_best=1, n_worst=1)
                o.after_initialization()
                o.optimization_step()
            except BaseException as e:          # noqa: B036 - the store log is inspected even when the path dies in numpy
                died = e
            for (k, old, new) in rec._log:
                if old != new:
                    return Failure("store-into-the-configuration", cls=cname, field=k, old=old, new=new)
            for k, v in snapshot.items():          # in-place edits of list-valued fields (sort, append, item assignment)
                if isinstance(v, list) and list(rec._d[k]) != v:
                    return Failure("list-valued-configuration-field-edited-in-place", cls=cname, field=k, old=v,
                                   new=list(rec._d[k]))
            if died is not None and not isinstance(died, Exception):
                raise died
            return OK
    return f


def twin():
    def f():
        with env(allow_seed=True):
            cfg = M.BaseOptimizationConfig(population_size=1, fitness_error=None, max_cycles=1)
            opt = Scripted(cfg, init=lambda o: [agent(0, 0.0, 0.5)],
                           step=lambda o, k: setattr(o._config, "max_cycles", sym.integer("m", 1, 2)))
            c0 = snap_cfg(cfg)
            opt.optimize(make_task([cont()], lambda x, i: 0.0))
            return OK if snap_cfg(cfg) == c0 else Failure("twin:a-storing-rule-is-seen")
    return f


def obligations(tier):
    th = tier == "thorough"
    obs = []
    for mc in range(1, (4 if th else 3) + 1):
        for use_fe in (False, True):
            for patience in (None, 1, 2):
                obs.append(Ob(f"base[mc={mc},fe={int(use_fe)},patience={patience},serial]",
                              ob_base(mc, use_fe, patience, "serial"), 300))
    for mode in ("thread", "process"):
        obs.append(Ob(f"base[mc=2,fe=1,patience=1,{mode}]", ob_base(2, True, 1, mode), 600))
    obs.append(Ob("any_seed", ob_any_seed(), 300))
    for kind in ("no-config", "bad-mode", "bad-workers"):
        obs.append(Ob(f"rejected[{kind}]", ob_rejected(kind), 60))
    for cname in optimizer_classes():
        obs.append(Ob(f"class[{cname}]", ob_class(cname, 2), 40, per_path_timeout=20, refutation_only=True,
                      api_replay_decides=True))
    obs.append(Ob("twin_vacuity", twin(), 30, expect_refuted=True))
    return obs
