"""C19 - HyperTuner evaluates the whole grid and selects the best parameters."""
import itertools
from .common import *          # noqa
from engine import pdlite

HT = repo_mod("hypertuner")
DIFFERENTIALS = ("numpy", "pydantic", "pandas")

META = {
    "explanation": "(a) ParameterGrid: for grid shapes (a dict or a list of <=2 dicts, 0-3 keys, 1-3 values per key, "
                   "values opaque tokens) and a symbolic index: len, iteration order and __getitem__ agree, iteration "
                   "yields every element of the union of the Cartesian products exactly once, out-of-range indexes raise "
                   "IndexError. (b) The real HyperTuner.execute / resolve run with a recording optimizer (a real "
                   "OptimizationAbstract subclass whose best cost for (grid point, trial) is a solver variable), the pool "
                   "model and pandas-lite: every grid point is evaluated exactly n_trials times with exactly its "
                   "parameters and the requested mode / workers; best_parameters is a grid point whose trial mean is "
                   "optimal in the task's direction, best_score is that mean; resolve() configures the optimizer with "
                   "best_parameters and runs it.",
    "bounds": {"quick": "grids <=3 points x 1-2 trials (one trial: NaN std, as pandas), MIN and MAX; ParameterGrid shapes up to 3x3x2 / two sub-grids",
               "thorough": "+ 4 and 5 grid points x 1 trial (3 trials: the variance comparison is cubic, z3 answers unknown; 4x2 exceeds an hour)"},
    "outside": "real process pools / pickling of the optimizer; export_results; n_trials = 0",
    "stubs": ["pandas.DataFrame -> pandas-lite (exactly the calls execute() makes; differentially validated against "
              "pandas 2.3.3 with ties each run; std replaced by variance: only its rank is consumed)",
              "ProcessPoolExecutor -> in-process pool model (map)", "pydantic-lite"],
    "assumptions": ["finite floats as reals: means are compared, oracle mean is the same expression sum/len"],
}

GRIDS = {
    "1x2": {"a": 2}, "2x1": {"a": 1, "b": 1}, "2x3": {"a": 2, "b": 3}, "3x3x2": {"a": 3, "b": 3, "c": 2},
    "empty": {}, "list[2|2x2]": [{"a": 2}, {"a": 2, "b": 2}], "list[empty|3]": [{}, {"z": 3}],
    "list[1|1]": [{"k": 1}, {"k": 1}],
    # keys inserted in non-alphabetical order (iteration and indexing must still agree)
    "unsorted[b2,a3]": {"b": 2, "a": 3}, "unsorted[c2,a2,b2]": {"c": 2, "a": 2, "b": 2},
    "list[a2|z2,y2]": [{"a": 2}, {"z": 2, "y": 2}],
}


def build_grid(shape, prefix="v"):
    if isinstance(shape, list):
        return [build_grid(s, f"{prefix}{i}.") for i, s in enumerate(shape)]
    # values are opaque to ParameterGrid (never compared): unique tokens, so that replays can identify them
    return {k: [f"{prefix}{k}{j}" for j in range(n)] for k, n in shape.items()}


def expected_points(grid):
    out = []
    for sub in ([grid] if isinstance(grid, dict) else grid):
        keys = sorted(sub)
        if not keys:
            out.append({})
            continue
        for combo in itertools.product(*[list(enumerate(sub[k])) for k in keys]):
            out.append({k: v for k, (_, v) in zip(keys, combo)})
    return out


def ob_grid(name):
    def f():
        with env():
            grid = build_grid(GRIDS[name])
            pg = HT.ParameterGrid(grid)
            pts = list(pg)
            exp = expected_points(grid)
            if len(pg) != len(exp) or len(pts) != len(exp):
                return Failure("len/iteration-disagree-with-the-cartesian-products", len=len(pg), iterated=len(pts),
                               expected=len(exp))
            # every expected point is yielded exactly once (compared by identity of the chosen value objects)
            def sig(p, src):
                return tuple(sorted((k, v) for k, v in p.items()))
            if sorted(sig(p, 0) for p in pts) != sorted(sig(p, 0) for p in exp):
                return Failure("iteration-is-not-the-union-of-the-cartesian-products")
            i = sym.integer("index", -1, len(exp))
            try:
                got = pg[i]
            except IndexError:
                return OK if (i >= len(exp) or i < 0) else Failure("valid-index-rejected", index=i)
            if i >= len(exp):
                return Failure("out-of-range-index-accepted", index=i)
            if i >= 0 and sig(got, 0) != sig(pts[i], 0):
                return Failure("getitem-disagrees-with-iteration-order", index=i)
            return OK
    return f


class RecordingOptimizer(A.OptimizationAbstract):
    """a real optimizer class: best cost of (grid point, trial) is a prepared (symbolic) score"""
    def __init__(self, scores, points, direction):
        super().__init__(None)
        self.scores, self.points, self.direction = scores, points, direction
        self.calls, self.current, self.trial = [], None, 0

    def set_config_parameters(self, parameters):
        self.current = parameters
        self.trial = 0
        self._config = M.BaseOptimizationConfig(population_size=1, fitness_error=None, max_cycles=1)

    def optimization_step(self):
        pass

    def _init_population(self):
        idx = [i for i, p in enumerate(self.points) if p == self.current][0]
        s = self.scores[idx][self.trial % len(self.scores[idx])]
        self.calls.append((idx, dict(self.current), str(self._mode), self._workers))
        self.trial += 1
        internal = s if self.direction == MIN else -s
        self._population = [agent(("pt", idx), internal, 0.5)]


def lite_dataframe(data=None, *a, **k):
    return pdlite.DataFrame(data)


def ob_execute(n_points, n_trials, dname, mode, symbolic_trials=None):
    """symbolic_trials: indexes of the trials whose score is a solver variable (default: all); the others are concrete
    (keeps the variance comparison tractable for many trials)"""
    direction = DIRS[dname]

    def f():
        import pandas as pd
        layers = [stubs.pool_layer(), {pd.DataFrame: lite_dataframe}]
        with env(*layers, allow_seed=True):
            if n_points == 4:
                grid = {"p": [0, 1], "q": [0, 1]}
            elif n_points == 5:
                grid = [{"p": [0, 1]}, {"p": [2], "q": [0, 1, 2]}]
            elif n_points == 3 and n_trials == 2:
                grid = [{"p": [0]}, {"p": [1], "q": [5, 6]}]          # a list of sub-grids
            else:
                grid = {"p": list(range(n_points))}
            points = expected_points(grid)
            scores = [[sym.real(f"s{i}.{j}") if symbolic_trials is None or j in symbolic_trials
                       else float((3 * i + j) % 4) for j in range(n_trials)] for i in range(len(points))]
            algo = RecordingOptimizer(scores, points, direction)
            t = make_task([cont()], lambda x, i: 0.0, minmax=direction)
            tuner = HT.HyperTuner(algo, param_grid=grid)
            tuner.execute(t, n_trials=n_trials, n_jobs=2, mode=mode, n_workers=3)
            per_point = [sum(1 for c in algo.calls if c[0] == i) for i in range(len(points))]
            if per_point != [n_trials] * len(points):
                return Failure("grid-point-not-evaluated-n_trials-times", per_point=per_point, n_trials=n_trials)
            for (i, params, m, w) in algo.calls:
                if params != points[i] or m != mode or w != 3:
                    return Failure("evaluation-with-other-parameters-or-mode", call=[i, params, m, w])
            means = []
            for r in scores:
                tot = 0.0
                for v in r:
                    tot = tot + v
                means.append(tot / len(r))
            bp = tuner.best_parameters
            cand = [i for i, p in enumerate(points) if p == bp]
            if len(cand) != 1:
                return Failure("best_parameters-is-not-a-grid-point", best=bp)
            b = cand[0]
            for i in range(len(points)):
                if better(means[i], means[b], direction):
                    return Failure("best_parameters-does-not-have-the-optimal-mean", means=means, chosen=b,
                                   direction=dname)
            if tuner.best_score != means[b]:
                return Failure("best_score-is-not-the-mean-of-the-chosen-point", best_score=tuner.best_score,
                               means=means, chosen=b)
            n_before = len(algo.calls)
            res = tuner.resolve(mode="serial")
            if algo.current != bp or len(algo.calls) != n_before + 1 or algo.calls[-1][1] != bp:
                return Failure("resolve-does-not-run-with-best_parameters")
            if res.best_solution.position != [("pt", b)]:
                return Failure("resolve-result-is-not-the-run-with-best_parameters")
            return OK
    return f


def ob_bad_mode():
    def f():
        with env(stubs.pool_layer(), allow_seed=True):
            algo = RecordingOptimizer([[0.0]], [{"p": 0}], MIN)
            tuner = HT.HyperTuner(algo, param_grid={"p": [0]})
            try:
                tuner.execute(make_task([cont()], lambda x, i: 0.0), mode="parallel")
            except ValueError:
                return OK if not algo.calls else Failure("evaluation-before-rejecting-the-mode")
            return Failure("unknown-mode-accepted")
    return f


def twin():
    def f():
        import pandas as pd
        with env(stubs.pool_layer(), {pd.DataFrame: lite_dataframe}, allow_seed=True):
            points = expected_points({"p": [0, 1]})
            scores = [[sym.real(f"s{i}.{j}") for j in range(2)] for i in range(2)]
            algo = RecordingOptimizer(scores, points, MIN)
            tuner = HT.HyperTuner(algo, param_grid={"p": [0, 1]})
            tuner.execute(make_task([cont()], lambda x, i: 0.0), n_trials=2)
            return OK if tuner.best_parameters == {"p": 0} else Failure("twin:first-point-is-not-always-best")
    return f


def obligations(tier):
    th = tier == "thorough"
    obs = [Ob(f"grid[{name}]", ob_grid(name), 300) for name in GRIDS]
    # (three trials make the variance comparison cubic in the scores: z3 answers unknown; four points x two trials
    #  exceed an hour) - the thorough tier widens the grid for one trial instead
    shapes = [(1, 2), (2, 2), (3, 2), (2, 1), (3, 1)] + ([(4, 1), (5, 1), (1, 1)] if th else [])
    for n_points, n_trials in shapes:
        for d in ("min", "max"):
            obs.append(Ob(f"execute[points={n_points},trials={n_trials},{d}]",
                          ob_execute(n_points, n_trials, d, "serial"), 3000 if n_points * n_trials >= 8 else 600))
    # many trials (two-digit trial numbers): only the last trial is symbolic
    for d in ("min", "max"):
        obs.append(Ob(f"execute_many_trials[points=2,trials=11,{d}]", ob_execute(2, 11, d, "serial", symbolic_trials=(10,)), 900))
    obs.append(Ob("execute[points=2,trials=2,min,thread]", ob_execute(2, 2, "min", "thread"), 600))
    obs.append(Ob("bad_mode", ob_bad_mode(), 60))
    obs.append(Ob("twin_vacuity", twin(), 120, expect_refuted=True))
    return obs
