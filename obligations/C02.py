"""C02 - reported cost and fitness are the true objective of the reported position."""
from .common import *          # noqa
from .funnel import Funnel, fitness_of, init_agent_overrides

META = {
    "explanation": "The real _init_agent / _fcn / Task.solve / calculate_fitness / Population / OptimizationResult run "
                   "with an uninterpreted objective (fresh solver variables F_j per objective), symbolic non-negative "
                   "weights and symbolic candidates (single-objective values also +inf / -inf), for MIN and MAX, single and multi objective, the base class and "
                   "each of the 19 _init_agent overrides. Oracle: the objective is called exactly once, with the "
                   "agent's own reported position; internal cost = sum(w_j F_j) (negated for MAX); reported cost "
                   "(after Population / OptimizationResult packaging) = sum(w_j F_j) in the user's sign; fitness = "
                   "g(reported cost); decoding the reported position equals decoding the evaluated argument.",
    "bounds": {"quick": "objectives k<=3; variable lists: single variables + selected pairs (dimension<=3); both directions",
               "thorough": "objectives k<=3; all pairs with dimension<=4"},
    "outside": "a scalar-valued objective combined with a one-element weight vector (validity ambiguous: the "
               "library's own count check accepts it, numpy then yields a 1-element array); in-place mutation of cost/position by an update rule after _init_agent (H1); float re-association "
               "in np.dot (oracle is the mathematical left-to-right sum)",
    "stubs": ["np.dot / np.clip / np.argsort pure-Python on symbolic values", "pydantic-lite (Agent, Population, "
              "OptimizationResult constructors; model_copy is pydantic's own Python code)",
              "real numpy RNG (reseeded per path) only for the extra fields of agent subclasses in the 19 overrides"],
    "assumptions": ["finite floats as reals", "objective is a deterministic function (uninterpreted value per call)"],
}

from engine import monitor as _monitor          # noqa: E402
META["audit"] = lambda: _monitor.audit(('H1',))

LISTS_Q = [("C",), ("D3",), ("P3",), ("CM2",), ("B2",), ("DM2",), ("MO2",), ("C", "D3"), ("P3", "C"), ("D3", "P3"),
           ("CM1", "B1"), ("DM1", "C")]


def check_cost(fu, a):
    uc = fu.user_cost()
    internal = uc if fu.minmax == MIN else -uc
    d = dict(x=fu.x, position=a.position, F=fu.F, w=fu.w, cost=a.cost, fitness=a.fitness, log=fu.log)
    if len(fu.log) != 1:
        return Failure("objective-calls", n=len(fu.log), **d)
    if fu.log[0] != a.position:
        return Failure("objective-evaluated-at-another-point-than-the-reported-position", **d)
    if a.cost != internal:
        return Failure("internal-cost", expected=internal, **d)
    if a.fitness != fitness_of(uc):
        return Failure("fitness-is-not-the-documented-function-of-the-reported-cost", **d)
    pop = M.Population(agents=[a], task_type=fu.minmax)
    r = pop.agents[0]
    if r.cost != uc or r.position != a.position or r.fitness != a.fitness:
        return Failure("population-packaging", reported=r.cost, **d)
    res = M.OptimizationResult(evolution=[pop], rates=[], best_solution=a, task_type=fu.minmax)
    b = res.best_solution
    if b.cost != uc or b.position != a.position or b.fitness != a.fitness:
        return Failure("result-packaging", reported=b.cost, **d)
    if a.cost != internal:
        return Failure("packaging-mutated-the-live-agent", **d)
    return OK


def ob_cost(names, cname, dname, n_obj, weights="sym", f_kind="real"):
    def f():
        with env(rng_deny=(cname == "base")):
            fu = Funnel(names, cname, DIRS[dname], n_obj, weights=weights, f_kind=f_kind)
            return check_cost(fu, fu.run())
    return f


def ob_low_precision():
    """the objective must have been evaluated at exactly the position the agent reports, also for numpy scalars of lower
    precision beyond a bound not representable in that precision (see funnel.low_precision_cases)"""
    def f():
        from .funnel import low_precision_cases
        n = 0
        for label, decls, opt, task, x in low_precision_cases():
            a = opt._init_agent(list(x))
            n += 1
            log = task.data["log"]
            if len(log) != 1 or list(log[0]) != list(a.position):
                return Failure("cost:objective-evaluated-at-another-point-than-the-reported-position", case=label,
                               position=repr(a.position), evaluated=repr(log))
            if a.cost != 1.5:
                return Failure("cost:not-the-objective-value:low-precision-candidate", case=label, cost=repr(a.cost))
        return OK if n else Failure("low-precision:no-case-ran")
    return f


def ob_decode(names, dname):
    def f():
        with env():
            fu = Funnel(names, "base", DIRS[dname], 1)
            a = fu.run()
            t = fu.task
            if len(fu.log) != 1 or fu.log[0] != a.position:
                return Failure("objective-evaluated-at-another-point-than-the-reported-position", x=fu.x,
                               position=a.position, log=fu.log)
            if t.correct_solution(a.position) != a.position:
                return Failure("reported-position-is-not-a-fixed-point-of-correction", position=a.position)
            if t.transform_solution(a.position) != t.transform_solution(fu.log[0]):
                return Failure("decoded-solution-differs-from-evaluated-solution", position=a.position)
            return OK
    return f


def ob_mismatch(n_obj, n_w, dname, empty_list=False):
    """objective/weight count mismatch is rejected (empty_list: objective_weights=[] is a list of zero weights, not
    'no weights')"""
    def f():
        with env():
            F = [sym.real(f"F{j}") for j in range(n_obj)]
            w = [sym.real(f"w{j}", lo=0.0) for j in range(n_w)] if (n_w or empty_list) else None
            ret = list(F) if n_obj else sym.real("F")          # n_obj == 0: a scalar-valued objective
            t = make_task([cont()], lambda x, i: ret, minmax=DIRS[dname], weights=w)
            o = Scripted(config())
            o._task = t
            try:
                o._init_agent([sym.real("x")])
            except ValueError:
                return OK
            return Failure("weight-count-mismatch-accepted", n_obj=n_obj, n_w=n_w)
    return f


def ob_reuse(first, second):
    """the property holds for every run, also a later run of a reused instance on another task: run 1 on task A,
    run 2 on task B (other direction / weights / objective count), every agent reported by run 2 is checked.
    first/second = (direction, n_objectives, weights: 'sym' | tuple of concrete weights | None)"""
    def f():
        with env(allow_seed=True):
            opt = Scripted(M.BaseOptimizationConfig(population_size=1, fitness_error=None, max_cycles=1))
            last = None
            for tag, (dname, k, wspec) in (("a", first), ("b", second)):
                F = {}

                def obj(x, i, F=F, tag=tag, k=k, wspec=wspec):
                    if i not in F:
                        F[i] = [sym.real(f"{tag}.F{i}.{j}") for j in range(k)]
                    return list(F[i]) if wspec is not None else F[i][0]
                w = None if wspec is None else ([sym.real(f"{tag}.w{j}", lo=0.0) for j in range(k)] if wspec == "sym"
                                                else list(wspec))
                t = make_task([cont()], obj, minmax=DIRS[dname], weights=w)
                cands = [sym.real(f"{tag}.x{g}", lo=-1.0, hi=2.0) for g in range(2)]
                opt.init_fn = lambda o, c=cands: [o._init_agent([c[0]])]
                opt.step_fn = lambda o, n, c=cands: setattr(o, "_population", [o._init_agent([c[1]])])
                last = (opt.optimize(t), t, F, w, DIRS[dname])
            res, t, F, w, direction = last
            log = t.data["log"]
            for g in res.evolution:
                for a in g.agents:
                    ok = False
                    for i, arg in enumerate(log):
                        if arg != a.position:
                            continue
                        uc = F[i][0] if w is None else sum(f * wi for f, wi in zip(F[i], w))
                        if a.cost == uc and a.fitness == fitness_of(uc):
                            ok = True
                    if not ok:
                        return Failure("agent-of-a-later-run-does-not-carry-the-objective-of-its-position",
                                       position=a.position, cost=a.cost, weights=w)
            return OK
    return f


def twin():
    def f():
        with env():
            fu = Funnel(("C",), "base", MAX, 1)
            a = fu.run()
            return OK if a.cost == fu.F[0] else Failure("twin:max-cost-is-not-negated")
    return f


def obligations(tier):
    th = tier == "thorough"
    obs = []
    for d in ("min", "max"):
        for n_obj, wmode in ((1, "none"), (1, "list1"), (2, "sym"), (3, "sym")):
            for names in (("C",), ("C", "D3")) if not th else (("C",), ("C", "D3"), ("P3", "CM2")):
                obs.append(Ob(f"cost[{'+'.join(names)},{d},k={n_obj},w={wmode}]",
                              ob_cost(names, "base", d, n_obj, wmode), 200))
        if d == "max":
            obs.append(Ob("cost[C,max-str,k=1,w=none]", ob_cost(("C",), "base", "max-str", 1, "none"), 200))
            obs.append(Ob("cost[C,max-str,k=2,w=sym]", ob_cost(("C",), "base", "max-str", 2, "sym"), 200))
        obs.append(Ob(f"cost_integer_objective[C+D3,{d}]", ob_cost(("C", "D3"), "base", d, 1, "none", f_kind="int"), 200))
        obs.append(Ob(f"cost_integer_objectives[C,{d},k=2]", ob_cost(("C",), "base", d, 2, "sym", f_kind="int"), 200))
        obs.append(Ob(f"cost_infinite_objective[C,{d}]", ob_cost(("C",), "base", d, 1, "none", f_kind="ext"), 200))
        for (k, j) in ((0, 2), (0, 3), (2, 0), (2, 1), (2, 3), (3, 2), (1, 2), (3, 0)):
            obs.append(Ob(f"mismatch[obj={k},w={j},{d}]", ob_mismatch(k, j, d), 60))
        for k in (0, 1, 2):
            obs.append(Ob(f"mismatch[obj={k},w=[],{d}]", ob_mismatch(k, 0, d, empty_list=True), 60))
    import itertools
    lists = list(LISTS_Q)
    if th:
        from .C14 import var_lists
        lists = [n for n in var_lists("thorough") if len(n) <= 2 and flat_size(n) <= 4]
    for names in lists:
        for d in ("min", "max") if (th or any(n.startswith("P") for n in names)) else ("min",):
            obs.append(Ob(f"decode[{'+'.join(names)},{d}]", ob_decode(names, d), 300))
    for cname in init_agent_overrides():
        for d in ("min", "max"):
            obs.append(Ob(f"override[{cname},{d}]", ob_cost(("C", "D3"), cname, d, 1, "none"), 200))
    for first, second in ((("max", 2, "sym"), ("min", 2, "sym")), (("min", 2, (0.9, 0.1)), ("min", 2, (0.2, 0.8))),
                          (("min", 2, (0.5, 0.5)), ("max", 1, None)), (("max", 1, None), ("min", 2, (1.0, 0.0))),
                          (("min", 3, (1.0, 2.0, 3.0)), ("min", 2, (0.2, 0.8)))):
        name = f"reuse[{first[0]}/{first[1]}/{first[2]}->{second[0]}/{second[1]}/{second[2]}]".replace(" ", "")
        obs.append(Ob(name, ob_reuse(first, second), 900))
    obs.append(Ob("low_precision_candidates", ob_low_precision(), 60))
    obs.append(Ob("twin_vacuity", twin(), 30, expect_refuted=True))
    return obs
