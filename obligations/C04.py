"""C04 - optimize() terminates exactly when the first configured stop criterion holds."""
from .common import *          # noqa

META = {
    "explanation": "The real optimize() loop, __error_check__, __should_stop__ and average_fitness run with a scripted "
                   "optimizer whose generation after cycle i has a solver-chosen mean fitness f_i (one symbolic real "
                   "per cycle), a symbolic fitness_error and a symbolic min_delta; max_cycles, the presence of each "
                   "criterion and patience are enumerated. Oracle (written from the property text): the number of "
                   "executed cycles is the first k with k>=max_cycles, or rate_k<=fitness_error, or the last `patience` "
                   "rate changes (first change against 0) all negative and smaller than min_delta in magnitude; "
                   "len(evolution)=k+1, len(rates)=k, rates[i]=|1-f_i|, generation i is the population after cycle i.",
    "bounds": {"quick": "max_cycles <= 5, patience <= max_cycles+1, all rate histories (symbolic)",
               "thorough": "max_cycles <= 7; mean-fitness family with up to 3 agents"},
    "outside": "histories longer than the bound; float rounding of rate differences (see DESIGN C04 float argument)",
    "stubs": ["np.average on symbolic fitness lists (pure-Python mean)", "print -> no-op (stray debug print)",
              "np.random.seed -> no-op", "pydantic-lite"],
    "assumptions": ["finite floats as reals for rates / thresholds (sign tests and comparisons only)"],
}


def spec_should_stop(rates, k, max_cycles, fe, patience, min_delta):
    """stop after cycle k (1-based) given rates[0..k-1]?  Written from the statement, not from the code."""
    if k >= max_cycles:
        return True
    if fe is not None and rates[k - 1] <= fe:
        return True
    if patience is not None:
        changes = [rates[0] - 0] + [rates[i] - rates[i - 1] for i in range(1, k)]
        window = changes[-patience:]
        fires = True
        for c in window:
            if not (c < 0 and -c < min_delta):
                fires = False
        if fires:
            return True
    return False


def run_history(mc, use_fe, patience, n_agents=1, debug=False):
    fe = sym.real("fitness_error") if use_fe else None
    md = sym.real("min_delta") if patience is not None else None
    es = M.EarlyStopping(patience=patience, min_delta=md) if patience is not None else None
    cfg = M.BaseOptimizationConfig(population_size=n_agents, fitness_error=fe, max_cycles=mc, early_stopping=es)
    fits = [[sym.real(f"f{c}.{a}") for a in range(n_agents)] for c in range(mc + 1)]

    def gen(c):
        return [agent((c, a), 0.0, fitness=fits[c][a]) for a in range(n_agents)]
    opt = Scripted(cfg, init=lambda o: gen(0), step=lambda o, k: setattr(o, "_population", gen(min(k, mc))))
    opt._debug = debug          # the verbose path formats the best agent and the rates every cycle
    task = make_task([cont()], lambda x, i: 0.0)
    res = opt.optimize(task)
    means = []
    for c in range(1, mc + 1):
        tot = 0.0
        for v in fits[c]:
            tot = tot + v
        means.append(tot / n_agents)
    rates = [abs(1 - m) for m in means]
    exp = None
    for k in range(1, mc + 1):
        if spec_should_stop(rates, k, mc, fe, patience, md):
            exp = k
            break
    detail = dict(max_cycles=mc, steps=opt.steps, expected=exp, rates=rates, fitness_error=fe, min_delta=md,
                  patience=patience)
    if opt.steps > mc:
        return Failure("ran-past-max_cycles", **detail)
    if opt.steps != exp:
        return Failure("stopped-early" if opt.steps < exp else "stopped-late", **detail)
    if len(res.evolution) != exp + 1:
        return Failure("evolution-length", got=len(res.evolution), **detail)
    if len(res.rates) != exp:
        return Failure("rates-length", got=len(res.rates), **detail)
    for i in range(exp):
        if res.rates[i] != rates[i]:
            return Failure("rate-is-not-|1-mean fitness|", i=i, got=res.rates[i], **detail)
    for g in range(exp + 1):
        if [a.position[0] for a in res.evolution[g].agents] != [(g, a) for a in range(n_agents)]:
            return Failure("generation-is-not-the-population-after-that-cycle", g=g)
    return OK


def ob(mc, use_fe, patience, n_agents=1, debug=False):
    def f():
        with env(allow_seed=True):
            return run_history(mc, use_fe, patience, n_agents, debug)
    return f


def twin():
    def f():
        with env(allow_seed=True):
            cfg = M.BaseOptimizationConfig(population_size=1, fitness_error=sym.real("fe"), max_cycles=3)
            fit = [sym.real(f"f{i}") for i in range(4)]
            opt = Scripted(cfg, init=lambda o: [agent(0, 0.0, fit[0])],
                           step=lambda o, k: setattr(o, "_population", [agent(k, 0.0, fit[k])]))
            opt.optimize(make_task([cont()], lambda x, i: 0.0))
            return OK if opt.steps == 3 else Failure("twin:always-runs-max_cycles")
    return f


def obligations(tier):
    th = tier == "thorough"
    N = 7 if th else 5
    obs = []
    for mc in range(1, N + 1):
        for use_fe in (False, True):
            for patience in [None] + list(range(1, mc + 2)):
                t = 60 if mc <= 5 else (300 if mc == 6 else 900)
                obs.append(Ob(f"stop[mc={mc},fe={int(use_fe)},patience={patience}]", ob(mc, use_fe, patience), t))
    for n in (2, 3) if th else (2,):
        for mc in (1, 2, 3):
            obs.append(Ob(f"mean[agents={n},mc={mc}]", ob(mc, True, 1, n), 300))
    for mc, use_fe, patience in ((1, True, None), (2, True, 1), (3, False, 2), (3, True, 4)):
        obs.append(Ob(f"stop_debug[mc={mc},fe={int(use_fe)},patience={patience}]", ob(mc, use_fe, patience, debug=True), 300))
    obs.append(Ob("twin_vacuity", twin(), 30, expect_refuted=True))
    return obs
