"""C03 - best_solution is the optimum of the final generation in the task's direction."""
from .common import *          # noqa

META = {
    "explanation": "The real optimize() (special_agents -> best_agents -> sort_by_cost on internal costs, result "
                   "packaging with sign restoration) runs with a scripted optimizer that replaces the population in "
                   "every cycle by k agents whose internal costs are solver variables (ties, +inf/-inf kinds), for MIN "
                   "and MAX; a second family takes the initial generation from the real _generate_agents in thread / "
                   "process mode (pool model, every completion order) with an uninterpreted objective. Oracle: "
                   "best_solution has the position and cost of an agent of evolution[-1] and no agent of evolution[-1] "
                   "is strictly better in the task's direction.",
    "bounds": {"quick": "(agents,cycles) in {(1,1),(1,2),(2,1),(2,2),(3,1)} with and without +-inf kinds; update rule through _extend_and_trim / _replace_and_trim with 0..1 candidates; pool family: 2 agents", "thorough": "+ (4,1),(3,2),(2,3) finite costs; pool family 3 agents"},
    "outside": "NaN costs; populations larger than the bound",
    "stubs": ["pydantic-lite", "np.random.seed no-op", "pool model with solver-chosen completion order",
              "np.random.* symbolic stream (pool family)"],
    "assumptions": ["finite floats as reals (costs are only compared and negated)"],
}


def check_best(res, direction):
    last = res.evolution[-1].agents
    b = res.best_solution
    if not any(a.position == b.position and a.cost == b.cost for a in last):
        return Failure("best_solution-is-not-an-agent-of-the-last-generation", best=[b.position, b.cost],
                       last=[[a.position, a.cost] for a in last])
    for a in last:
        if better(a.cost, b.cost, direction):
            return Failure("an-agent-of-the-last-generation-is-strictly-better", best=b.cost, other=a.cost,
                           last=costs_of(last))
    return OK


def ob_scripted(k, cycles, dname, inf, ps=None):
    """ps: configured population_size when it differs from the size of the live population (mu+lambda style rules
    leave more agents than population_size, shrinking rules fewer): the generation is recorded as it stands"""
    direction = DIRS[dname]

    def f():
        with env(allow_seed=True):
            gens = [[agent((g, i), (sym.ext_real if inf and g == cycles else sym.real)(f"c{g}.{i}"), fitness=0.5)
                     for i in range(k)] for g in range(cycles + 1)]          # +-inf kinds in the last generation
            opt = Scripted(M.BaseOptimizationConfig(population_size=ps or k, fitness_error=None, max_cycles=cycles),
                           init=lambda o: list(gens[0]), step=lambda o, c: setattr(o, "_population", list(gens[c])))
            res = opt.optimize(make_task([cont()], lambda x, i: 0.0, minmax=direction))
            if len(res.evolution) != cycles + 1:
                return Failure("evolution-length")
            # reported costs of the last generation are the internal ones in the user's sign
            exp = [c if direction == MIN else -c for c in costs_of(gens[cycles])]
            if costs_of(res.evolution[-1].agents) != exp:
                return Failure("last-generation-costs", got=costs_of(res.evolution[-1].agents), expected=exp)
            return check_best(res, direction)
    return f


def ob_helper_rule(which, k, j, dname):
    """the scripted update rule goes through the base class's own merge helpers with j candidates - j = 0 included (an
    update rule that found no acceptable candidate in a cycle): the final generation is whatever the helper left and
    best_solution must be its optimum"""
    direction = DIRS[dname]

    def f():
        with env(allow_seed=True):
            cur = [agent((0, i), sym.real(f"c0.{i}"), fitness=0.5) for i in range(k)]
            new = [agent((1, i), sym.real(f"c1.{i}"), fitness=0.5) for i in range(j)]

            def step(o, c):
                if which == "extend_trim":
                    o._extend_and_trim_population(list(new))
                else:
                    o._replace_and_trim_population(list(o._population) + list(new))
            opt = Scripted(M.BaseOptimizationConfig(population_size=k, fitness_error=None, max_cycles=1),
                           init=lambda o: list(cur), step=step)
            res = opt.optimize(make_task([cont()], lambda x, i: 0.0, minmax=direction))
            if len(res.evolution[-1].agents) != k:
                return Failure("helper-rule:generation-size", got=len(res.evolution[-1].agents))
            return check_best(res, direction)
    return f


def ob_pooled(n, mode, dname):
    direction = DIRS[dname]

    def f():
        st = stubs.Stream("np")
        with env(stubs.numpy_stream_layer(lambda: st), stubs.pool_layer()):
            F = [sym.real(f"F{i}") for i in range(n)]
            t = make_task([cont()], lambda x, i: F[i], minmax=direction)
            opt = Scripted(M.BaseOptimizationConfig(population_size=n, fitness_error=None, max_cycles=1))
            res = opt.optimize(t, mode=mode, workers=2)
            if sorted(costs_of(res.evolution[-1].agents)) != sorted(F):
                return Failure("pooled-generation-is-not-the-set-of-evaluations", got=costs_of(res.evolution[-1].agents))
            return check_best(res, direction)
    return f


def twin():
    def f():
        with env(allow_seed=True):
            gens = [[agent((g, i), sym.real(f"c{g}.{i}"), fitness=0.5) for i in range(2)] for g in range(2)]
            opt = Scripted(M.BaseOptimizationConfig(population_size=2, fitness_error=None, max_cycles=1),
                           init=lambda o: list(gens[0]), step=lambda o, c: setattr(o, "_population", list(gens[c])))
            res = opt.optimize(make_task([cont()], lambda x, i: 0.0))
            return OK if res.best_solution.position == [(1, 0)] else Failure("twin:first-agent-is-not-always-best")
    return f


def obligations(tier):
    th = tier == "thorough"
    obs = []
    shapes = [(1, 1), (1, 2), (2, 1), (2, 2), (3, 1)] + ([(4, 1), (3, 2), (2, 3)] if th else [])
    for k, cycles in shapes:
        for d in ("min", "max"):
            for inf in (False, True):
                if inf and ((k, cycles) in ((4, 1), (3, 2), (2, 3)) or (k == 3 and not th)):
                    continue
                obs.append(Ob(f"scripted[k={k},cycles={cycles},{d},inf={int(inf)}]",
                              ob_scripted(k, cycles, d, inf), 900 if (k, cycles) in ((4, 1), (3, 2), (2, 3)) else 300))
    for d in ("min", "max"):
        obs.append(Ob(f"scripted_oversize[k=3,ps=2,{d}]", ob_scripted(3, 1, d, False, ps=2), 300))
        obs.append(Ob(f"scripted_undersize[k=2,ps=4,{d}]", ob_scripted(2, 1, d, False, ps=4), 300))
    for k, cycles in ((2, 1), (3, 1)):
        obs.append(Ob(f"scripted[k={k},cycles={cycles},max-str,inf=0]", ob_scripted(k, cycles, "max-str", False), 300))
    for which in ("extend_trim", "replace_trim"):
        for j in (0, 1, 2) if th else (0, 1):
            for d in ("min", "max"):
                obs.append(Ob(f"scripted_helper[{which},k={3 if th else 2},j={j},{d}]",
                              ob_helper_rule(which, 3 if th else 2, j, d), 300))
    for mode in ("thread", "process"):
        for d in ("min", "max"):
            obs.append(Ob(f"pooled[n={3 if th else 2},{mode},{d}]", ob_pooled(3 if th else 2, mode, d), 600))
    obs.append(Ob("twin_vacuity", twin(), 30, expect_refuted=True))
    return obs
