"""C20 - Multitask runs every algorithm on every task with the designated mode."""
import os
import shutil
import tempfile
from .common import *          # noqa

MT = repo_mod("multitask")

META = {
    "explanation": "The real Multitask.__init__ (__check_input__, __check_modes__), execute (__get_mode__, "
                   "__parallelize__, __run__) and export_results run with n recording optimizers (real "
                   "OptimizationAbstract subclasses with distinct names) and m tasks for n, m in 1..3; the entries of "
                   "`modes` are chosen by the solver from {serial, thread, process, bogus} in each of the documented "
                   "shapes (None, one value, one per algorithm, one per task, one per pair). Oracle: construction raises "
                   "ValueError iff an entry is not a solver mode (or the shape is none of the four, or modes is not a "
                   "tuple); execute runs each (algorithm, task) pair exactly n_trials times in the mode the shape "
                   "designates (ambiguous lengths resolved in the order the class documents: (1), (n), (m), (n*m)) with "
                   "the configured worker count; one table per algorithm with one column per task and one row per "
                   "trial; export_results writes exactly one file per algorithm under <save_path>/<algorithm name>/.",
    "bounds": {"quick": "n*m<=4 with <=4 symbolic mode entries; n_trials<=2", "thorough": "n*m<=6 with <=6 symbolic entries"},
    "outside": "real process pools / pickling of optimizers; file contents and formats; tasks sharing a class name",
    "stubs": ["ProcessPoolExecutor -> in-process pool model (map)", "pydantic-lite", "np.random.seed no-op",
              "export runs against a real temporary directory"],
    "assumptions": [],
}

ALPHABET = ["serial", "thread", "process", "bogus"]
VALID = ("serial", "thread", "process")


def make_algos(n, log):
    out = []
    for i in range(n):
        def init(o, i=i):
            log.append((o.name, o._task.name, str(o._mode), o._workers))
            return [agent((i,), 0.0, 0.5)]
        cls = type(f"Algo{i}", (Scripted,), {})
        out.append(cls(M.BaseOptimizationConfig(population_size=1, fitness_error=None, max_cycles=1), init=init))
    return out


def make_tasks(m):
    out = []
    for j in range(m):
        cls = type(f"Task{j}", (RecordingTask,), {})
        out.append(cls(variables=[cont()], data={"log": [], "f": lambda x, i: 0.0}))
    return out


def designated(shape, entries, n, m, i, j):
    """oracle: the mode of pair (algorithm i, task j)"""
    if shape == "none":
        return "serial"
    L = len(entries)
    if L == 1:
        return entries[0]
    if L == n:
        return entries[i]
    if L == m:
        return entries[j]
    return entries[i * m + j]


def shape_len(shape, n, m):
    return {"none": 0, "one": 1, "per_algorithm": n, "per_task": m, "per_pair": n * m}[shape]


ASYMMETRIC = ["serial", "thread", "process", "thread", "process", "serial", "process", "serial", "thread"]


def ob_modes(n, m, shape, n_trials, symbolic_slots=None):
    """symbolic_slots: indexes of the entries chosen by the solver (default: all); the others follow a fixed asymmetric
    pattern, so that a transposed / regrouped table is visible without 4^(n*m) paths"""
    def f():
        with env(stubs.pool_layer(), allow_seed=True):
            L = shape_len(shape, n, m)
            alphabet = ALPHABET if L <= 5 or symbolic_slots is not None else ["serial", "thread", "bogus"]
            entries = [sym.choice(f"mode{k}", alphabet) if symbolic_slots is None or k in symbolic_slots
                       else ASYMMETRIC[k] for k in range(L)]
            modes = None if shape == "none" else tuple(entries)
            log = []
            algos, tasks = make_algos(n, log), make_tasks(m)
            all_valid = all(e in VALID for e in entries)
            try:
                mt = MT.Multitask(tuple(algos), tuple(tasks), modes=modes, n_workers=3)
            except ValueError:
                return OK if not all_valid else Failure("valid-modes-rejected-at-construction", modes=entries, n=n, m=m,
                                                        shape=shape)
            except Exception as e:
                return Failure("construction-fails-with-an-internal-error", modes=entries, n=n, m=m, shape=shape,
                               error=repr(e)[:200])
            if not all_valid:
                return Failure("unknown-mode-accepted-at-construction", modes=entries, n=n, m=m, shape=shape)
            mt.execute(n_trials=n_trials, n_jobs=2)
            for i, a in enumerate(algos):
                for j, t in enumerate(tasks):
                    runs = [r for r in log if r[0] == a.name and r[1] == t.name]
                    want = designated(shape, entries, n, m, i, j)
                    if len(runs) != n_trials:
                        return Failure("pair-not-run-n_trials-times", algorithm=a.name, task=t.name, runs=len(runs),
                                       n_trials=n_trials, modes=entries, shape=shape)
                    if any(r[2] != want or r[3] != 3 for r in runs):
                        return Failure("pair-run-in-another-mode-than-designated", algorithm=a.name, task=t.name,
                                       expected=want, got=[r[2] for r in runs], modes=entries, shape=shape, n=n, m=m)
            if len(log) != n * m * n_trials:
                return Failure("extra-runs", runs=len(log))
            tables = mt._df2
            if len(tables) != n:
                return Failure("not-one-table-per-algorithm", tables=len(tables))
            for a, df in zip(algos, tables):
                cols = [f"{a.name}_{t.name}" for t in tasks]
                if list(df.columns) != cols or len(df) != n_trials:
                    return Failure("table-shape", algorithm=a.name, columns=list(df.columns), rows=len(df))
            return OK
    return f


def ob_bad_shapes():
    def f():
        with env(allow_seed=True):
            log = []
            algos, tasks = make_algos(2, log), make_tasks(3)
            for modes in (("serial",) * 4, ("serial",) * 5, ["serial"], "serial"):
                try:
                    MT.Multitask(tuple(algos), tuple(tasks), modes=modes)
                    return Failure("undocumented-modes-shape-accepted", modes=repr(modes))
                except ValueError:
                    pass
            return OK
    return f


def ob_export(n, save_as):
    def f():
        with env(stubs.pool_layer(), rng_deny=False):          # tempfile uses the stdlib generator
            log = []
            algos, tasks = make_algos(n, log), make_tasks(2)
            mt = MT.Multitask(tuple(algos), tuple(tasks))
            mt.execute(n_trials=1)
            base = tempfile.mkdtemp(prefix="verif_c20_")
            try:
                root = os.path.join(base, "out")
                mt.export_results(save_as, root)
                tree = sorted(os.path.relpath(os.path.join(d, fn), root) for d, _, fs in os.walk(root) for fn in fs)
                for a in algos:
                    mine = [p for p in tree if os.path.dirname(p) == a.name]
                    if len(mine) != 1:
                        return Failure("export-does-not-write-one-file-under-<save_path>/<algorithm>/", algorithm=a.name,
                                       tree=tree)
                if len(tree) != n:
                    return Failure("export-writes-other-files", tree=tree)
                try:
                    mt.export_results("xml", root)
                    return Failure("unsupported-export-type-accepted")
                except ValueError:
                    pass
                return OK
            finally:
                shutil.rmtree(base, ignore_errors=True)
    return f


def twin():
    def f():
        with env(stubs.pool_layer(), allow_seed=True):
            e = sym.choice("mode0", ALPHABET)
            try:
                MT.Multitask(tuple(make_algos(1, [])), tuple(make_tasks(1)), modes=(e,))
            except ValueError:
                return Failure("twin:some-mode-is-rejected")
            return OK
    return f


def obligations(tier):
    th = tier == "thorough"
    obs = []
    cap = 6 if th else 4
    for n in (1, 2, 3):
        for m in (1, 2, 3):
            if n * m > cap:
                continue
            for shape in ("none", "one", "per_algorithm", "per_task", "per_pair"):
                if shape_len(shape, n, m) > cap:
                    continue
                nt = 2 if n * m <= 2 else 1
                obs.append(Ob(f"modes[n={n},m={m},{shape}]", ob_modes(n, m, shape, nt), 900 if n * m <= 4 else 3000))
    if not th:          # the non-square grids with one mode per pair: fixed asymmetric pattern + one solver-chosen entry
        for n, m in ((2, 3), (3, 2)):
            obs.append(Ob(f"modes[n={n},m={m},per_pair,one-symbolic-slot]", ob_modes(n, m, "per_pair", 1, (4,)), 900))
            obs.append(Ob(f"modes[n={n},m={m},per_task,one-symbolic-slot]", ob_modes(n, m, "per_task", 1, (0,)), 900))
    obs.append(Ob("bad_shapes", ob_bad_shapes(), 60))
    for n in (1, 2, 3):
        obs.append(Ob(f"export[n={n},csv]", ob_export(n, "csv"), 120))
    obs.append(Ob("export[n=2,json]", ob_export(2, "json"), 120))
    obs.append(Ob("export[n=2,dataframe]", ob_export(2, "dataframe"), 120))
    obs.append(Ob("twin_vacuity", twin(), 60, expect_refuted=True))
    return obs
