"""C05 - the user's objective is only ever evaluated inside the search space."""
from .common import *          # noqa
from .funnel import Funnel, init_agent_overrides, low_precision_cases
from .C14 import var_lists

META = {
    "explanation": "Every call of the (uninterpreted, argument-logging) objective made by the real Task.solve, _fcn and "
                   "_init_agent (base class + 19 overrides) is checked for membership of its argument, for candidates "
                   "whose coordinates are finite, +inf, -inf or NaN (solver-chosen kinds), candidates longer than the "
                   "dimension, MIN and MAX, and for evaluations submitted to a (modelled) thread / process pool by "
                   "_generate_agents. A crash before the objective is called is not a violation of this property.",
    "bounds": {"quick": "single variables (all float kinds incl. NaN); ordered pairs with dimension<=2 all kinds, "
                        "dimension 3 finite; pool: 2 agents",
               "thorough": "pairs dimension<=3 all kinds, dimension 4 finite; pool: 3 agents"},
    "outside": "direct calls of objective_function from an algorithm module (H1: none exists today, listed by the "
               "monitor); candidates shorter than the dimension (zip truncation: objective sees a short vector - "
               "no base-class path produces one)",
    "stubs": ["np.clip/np.argsort pure-Python on symbolic values (NaN propagates through clip as in numpy)",
              "np.random.* -> symbolic stream", "pools -> in-process model", "pydantic-lite"],
    "assumptions": ["finite floats as reals; NaN and infinities are concrete Python floats on their own paths"],
}

from engine import monitor as _monitor          # noqa: E402
META["audit"] = lambda: _monitor.audit(('H1',))


def args_ok(log, decls):
    for i, arg in enumerate(log):
        if not in_space(arg, decls):
            return Failure("objective-called-outside-the-search-space", call=i, argument=arg)
    return OK


def ob_init_agent(names, cname, kind, dname="min", extra=0, symbolic_bounds=False):
    def f():
        st = stubs.Stream("np")
        layers = [stubs.numpy_stream_layer(lambda: st)] if cname == "base" else []
        with env(*layers, rng_deny=(cname == "base")):
            fu = Funnel(names, cname, DIRS[dname], 1, kind=kind, extra_coords=extra, symbolic_bounds=symbolic_bounds)
            try:
                fu.run()
            except (ValueError, OverflowError, TypeError):
                pass          # a rejected candidate is not an evaluation (C06's subject)
            return args_ok(fu.log, fu.decls)
    return f


def ob_solve(names, kind):
    def f():
        st = stubs.Stream("np")
        with env(stubs.numpy_stream_layer(lambda: st)):
            fu = Funnel(names, "base", MIN, 1, kind=kind)
            for call in (fu.task.solve, fu.opt._fcn):
                try:
                    call(list(fu.x))
                except (ValueError, OverflowError, TypeError):
                    pass
            return args_ok(fu.log, fu.decls)
    return f


def ob_low_precision():
    def f():
        for label, decls, opt, task, x in low_precision_cases():
            for call in (opt._init_agent, task.solve, opt._fcn):
                call(list(x))
            r = args_ok(task.data["log"], decls)
            if r is not OK:
                return Failure("objective-called-outside-the-search-space:low-precision-candidate", case=label,
                               log=[repr(a) for a in task.data["log"]])
            if len(task.data["log"]) != 3:
                return Failure("low-precision:harness-did-not-reach-the-objective", case=label)
        return OK
    return f


def ob_pool(names, mode, n):
    def f():
        st = stubs.Stream("np")
        with env(stubs.numpy_stream_layer(lambda: st), stubs.pool_layer()):
            vs = build_vars(names)
            decls = leaf_decls(vs)
            t = make_task(vs, lambda x, i: float(i))
            o = Scripted(config(population_size=n))
            o._task, o._mode, o._workers = t, ModeSolver(mode), 2
            pop = o._generate_agents(n)
            if len(t.data["log"]) != n:
                return Failure("pooled-evaluations", n=n, calls=len(t.data["log"]))
            r = args_ok(t.data["log"], decls)
            if r is not OK:
                return r
            new = [o._init_agent(sym_candidate(decls, prefix=f"c{j}.", kind="any")) for j in range(n)]
            o._population = pop
            o._greedy_select_population(new)
            return args_ok(t.data["log"], decls)
    return f


def ob_optimize(names, weighted, mode):
    """every objective call of a whole optimize() run (validation probes included), weighted multi-objective tasks too"""
    def f():
        st = stubs.Stream("np")
        layers = [stubs.numpy_stream_layer(lambda: st)] + ([stubs.pool_layer()] if mode != "serial" else [])
        with env(*layers):
            vs = build_vars(names)
            decls = leaf_decls(vs)
            t = make_task(vs, (lambda x, i: [float(100 - i), 1.0]) if weighted else (lambda x, i: float(100 - i)),
                          weights=[0.5, 0.5] if weighted else None)

            def step(o, c):
                o._population = [o._init_agent(sym_candidate(decls, prefix=f"x{c}.{j}.")) for j in range(len(o._population))]
            opt = Scripted(M.BaseOptimizationConfig(population_size=2, fitness_error=None, max_cycles=1), step=step)
            try:
                opt.optimize(t, mode=mode, workers=2)
            except ValueError:
                pass
            return args_ok(t.data["log"], decls)
    return f


def twin():
    def f():
        with env():
            fu = Funnel(("C",), "base", MIN, 1, kind="real")
            fu.run()
            return OK if fu.log[0] == fu.x else Failure("twin:objective-does-not-see-the-raw-candidate")
    return f


def obligations(tier):
    th = tier == "thorough"
    obs = []
    for names in var_lists(tier):
        d = flat_size(names)
        perm = sum(VARIANTS[n][1] if not n.startswith("P") else int(n[1:]) for n in names)
        if len(names) == 3:
            continue
        kind = "any" if perm <= (3 if th else 2) or len(names) == 1 else "real"
        t = 300 if perm <= 2 else 900
        obs.append(Ob(f"init_agent[{'+'.join(names)},{kind}]", ob_init_agent(names, "base", kind), t))
        if len(names) == 1 or th:
            obs.append(Ob(f"solve[{'+'.join(names)},{kind}]", ob_solve(names, kind), t))
    for names in (("D3",), ("DM2",), ("B2",), ("C", "D3"), ("DM1", "B1"), ("C",)):
        obs.append(Ob(f"init_agent[{'+'.join(names)},int]", ob_init_agent(names, "base", "int"), 300))
    # bounds as solver variables (bounds that are not short decimals: pi, 1/3, ...)
    obs.append(Ob("init_agent_symbolic_bounds[C,ext]", ob_init_agent(("C",), "base", "ext", symbolic_bounds=True), 300))
    obs.append(Ob("init_agent_symbolic_bounds[C+C,real]", ob_init_agent(("C", "C"), "base", "real", symbolic_bounds=True), 300))
    obs.append(Ob("init_agent_extra_coords[C+D3]", ob_init_agent(("C", "D3"), "base", "any", extra=2), 300))
    obs.append(Ob("init_agent_max[C+D3]", ob_init_agent(("C", "D3"), "base", "any", dname="max"), 300))
    for cname in init_agent_overrides():
        obs.append(Ob(f"override[{cname}]", ob_init_agent(("C", "D3"), cname, "any"), 300))
    for names in (("C",), ("P3",), ("B2",), ("D3", "C")):
        for weighted in (False, True):
            obs.append(Ob(f"optimize[{'+'.join(names)},weighted={int(weighted)},serial]",
                          ob_optimize(names, weighted, "serial"), 600))
    obs.append(Ob("optimize[B2,weighted=1,thread]", ob_optimize(("B2",), True, "thread"), 600))
    for mode in ("thread", "process"):
        obs.append(Ob(f"pool[C,{mode},n=2]", ob_pool(("C",), mode, 2), 300))
        if th:
            obs.append(Ob(f"pool[C+D3,{mode},n=2]", ob_pool(("C", "D3"), mode, 2), 900))
    obs.append(Ob("low_precision_candidates", ob_low_precision(), 60))
    obs.append(Ob("twin_vacuity", twin(), 30, expect_refuted=True))
    return obs
