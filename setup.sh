#!/bin/bash
# Offline setup: overlay venv on top of /venv (the repository's interpreter and dependencies) + crosshair-tool from the wheelhouse.
set -e
cd "$(dirname "$0")"
if [ ! -x .venv/bin/python ] || ! .venv/bin/python -c "import crosshair, z3, numpy, pydantic" 2>/dev/null; then
  rm -rf .venv
  /venv/bin/python -m venv .venv
  echo "import site; site.addsitedir('/venv/lib/python3.12/site-packages')" > .venv/lib/python3.12/site-packages/_base.pth
  PIP_NO_INDEX=1 .venv/bin/pip install -q --no-index --find-links /opt/veriftools/wheels crosshair-tool
fi
.venv/bin/python -c "import crosshair, z3, numpy, pydantic, pandas; print('verif venv ok: crosshair', crosshair.__version__, 'z3', z3.get_version_string())"
