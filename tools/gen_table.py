"""regenerates DESIGN.md section 8.7 (per-property table) from the obligation modules' META"""
import collections, importlib, os, re, sys
sys.path[:0] = ["/verif", os.environ.get("VERIF_REPO", "/repo")]
rows = ["| id | obligation families (quick count) | quick bounds | thorough bounds | outside the claim |", "|---|---|---|---|---|"]
for i in range(1, 21):
    pid = f"C{i:02d}"
    m = importlib.import_module(f"obligations.{pid}")
    fam = collections.OrderedDict()
    for o in m.obligations("quick"):
        fam[o.group] = fam.get(o.group, 0) + 1
    cell = lambda t: str(t).replace("|", "/").replace("\n", " ")
    rows.append(f"| {pid} | {', '.join(f'{k} ({v})' for k, v in fam.items())} | {cell(m.META['bounds']['quick'])} | "
                f"{cell(m.META['bounds']['thorough'])} | {cell(m.META['outside'])} |")
p = "/verif/DESIGN.md"
s = open(p).read()
a = s.index("### 8.7")
a = s.index("\n", a) + 1
b = s.index("### 8.8")
s = s[:a] + "\n" + "\n".join(rows) + "\n\n" + s[b:]
open(p, "w").write(s)
print("rows", len(rows) - 2)
