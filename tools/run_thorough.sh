#!/bin/bash
# sizes the thorough tier: runs every thorough check once, logs exit code and wall time
for p in "$@"; do
  s=$(date +%s); ./check $p thorough > thorough_$p.log 2>&1; rc=$?; e=$(date +%s)
  echo "$p rc=$rc $((e-s))s $(grep -c '^VIOLATION' thorough_$p.log) $(grep -m1 '^\[' thorough_$p.log | cut -c1-130)"
  grep -E "^(INCONCLUSIVE|HARNESS)" thorough_$p.log | head -5 | cut -c1-220
done
