#!/bin/bash
# tools/try_seed.sh <seed-dir> <PROPERTY>...   : confirm a seeded change (demo fails with it / passes without) and run checks
# against a scratch copy of /repo with the patch applied (VERIF_REPO); the copy is removed afterwards.
set -u
SEED="$1"; shift
SCR=$(mktemp -d /tmp/verif_seed_XXXX)
cp -r /repo/pyvolutionary /repo/tests "$SCR"/
( cd "$SCR" && patch -p1 -s < "$SEED/patch.diff" ) || { echo "patch does not apply"; rm -rf "$SCR"; exit 9; }
DEMO=$(ls "$SEED"/demo*.py | head -1)
( cd /tmp && PYTHONPATH="$SCR" /venv/bin/python "$DEMO" >/dev/null 2>&1 ); echo "demo on changed tree: exit $?"
( cd /tmp && PYTHONPATH=/repo /venv/bin/python "$DEMO" >/dev/null 2>&1 ); echo "demo on unchanged tree: exit $?"
for P in "$@"; do
  VERIF_REPO="$SCR" VERIF_EVIDENCE_DIR="$SCR/evidence" /verif/check "$P" quick > "$SCR/$P.log" 2>&1; rc=$?
  echo "check $P: exit $rc violations=$(grep -c '^VIOLATION' "$SCR/$P.log") $(grep -m1 'refuted:' "$SCR/$P.log" | cut -c1-140)"
  grep -E "^(INCONCLUSIVE|HARNESS)" "$SCR/$P.log" | head -3 | cut -c1-200
done
rm -rf "$SCR"
