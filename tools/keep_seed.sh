#!/bin/bash
# tools/keep_seed.sh <ID-name> <seed-out-dir> : run the repository test-suite on a scratch worktree with the patch,
# then store patch, demo and notes under /verif/seeded/<ID-name>/ (meta.json is written by hand / by tools/seed_meta.py)
set -u
NAME="$1"; SEED="$2"
WT=$(mktemp -d /tmp/verif_wt_XXXX); rmdir "$WT"
git -C /repo worktree add --detach "$WT" HEAD -q || exit 9
( cd "$WT" && git apply "$SEED/patch.diff" ) || { echo "patch does not apply"; git -C /repo worktree remove --force "$WT"; exit 9; }
( cd "$WT" && /venv/bin/python -m pytest -q -p no:cacheprovider -n ${JOBS:-8} 2>&1 | tail -1 ) | tee /tmp/keep_$NAME.txt
mkdir -p /verif/seeded/$NAME
cp "$SEED/patch.diff" /verif/seeded/$NAME/patch.diff
cp "$SEED"/demo*.py /verif/seeded/$NAME/ 2>/dev/null
cp "$SEED/notes.md" /verif/seeded/$NAME/notes.md 2>/dev/null
cp /tmp/keep_$NAME.txt /verif/seeded/$NAME/testsuite.txt
git -C /repo worktree remove --force "$WT"
