#!/bin/bash
# re-runs every stored seeded change against the property's current quick check (scratch copies; /repo untouched)
for d in /verif/seeded/*/; do
  k=$(basename $d); p=${k:0:3}
  r=$(/verif/tools/try_seed.sh $d $p 2>&1 | grep "^check" | head -1)
  echo "$k $r"
done
