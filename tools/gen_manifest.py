#!/usr/bin/env python3
"""Regenerates MANIFEST.json from the obligation modules present (obligations/Cxx.py: META)."""
import importlib, json, os, sys
VERIF = os.path.dirname(os.path.dirname(os.path.abspath(__file__)))
sys.path[:0] = [os.environ.get("VERIF_REPO", "/repo"), VERIF]
props = [json.loads(l) for l in open(os.path.join(VERIF, "properties.jsonl"))]
NA = json.load(open(os.path.join(VERIF, "tools", "not_applicable.json")))
checks, na, served = [], [], []
for p in props:
    pid = p["id"]
    path = os.path.join(VERIF, "obligations", pid + ".py")
    if pid in NA or not os.path.exists(path):
        na.append({"property_id": pid, "reason": NA.get(pid, "check not built yet (build in progress)")})
        continue
    meta = importlib.import_module("obligations." + pid).META
    served.append(pid)
    checks.append({
        "property_id": pid, "quick_cmd": f"./check {pid} quick", "thorough_cmd": f"./check {pid} thorough",
        "evidence_file": f"evidence/{pid}.json", "replay_cmd_template": "./check --replay {path}", "engine": "xh",
        "level_claimed": {"category": "other",
                          "text": "bounded symbolic execution of the real code decided by z3: " + meta.get("claim", meta["explanation"])[:900],
                          "design_ref": f"DESIGN.md section 4 / {pid}"},
        "level_note": "Bounds: " + json.dumps(meta.get("bounds")) + ". Outside the claim: " + meta.get("outside", "") +
                      " Trusted: CrossHair 0.0.110 tracing, z3 5.1.0, the environment stubs (differentially validated each run): " + "; ".join(meta.get("stubs", [])),
        "technique": "SMT-based bounded symbolic execution of the real Python code (CrossHair state space + z3, own exhaustive driver); counterexamples replayed on the unpatched libraries",
    })
m = {
    "version": 1, "setup_cmd": "./setup.sh",
    "hooks": {"guard": "PYVOLUTIONARY_VERIF", "enable": "no source hooks are needed: all interception happens in the checker process (CrossHair patch layers); checks import /repo's working tree via PYTHONPATH",
              "baseline_off_cmd": "cd /repo && /venv/bin/python -m pytest -q -p no:cacheprovider --timeout=900", "source_commits": [], "add_only": True},
    "engines": [{"name": "xh", "path": "engine/", "serves_properties": served,
                 "kind_free_text": "bounded symbolic execution of the real pyvolutionary functions with CrossHair's state space (z3); exhaustive driver; counterexample replay on the real libraries; known-findings file"}],
    "checks": checks, "not_applicable": na,
    "notes": "Exit codes of ./check: 0 holds (or only KNOWN-FINDING lines), 1 replayed VIOLATION, 2 inconclusive (timeout / solver unknown / realisation), 3 harness error (stub differential or replay mismatch). See DESIGN.md.",
}
json.dump(m, open(os.path.join(VERIF, "MANIFEST.json"), "w"), indent=1)
print("checks:", served, "not_applicable:", [x["property_id"] for x in na])
